"""C10 - parse results are fixed points.

Decided clauses (narrow): the anchored mechanism "early-outs for already adapted values".
  C10.a  every deserialising conversion of adapt_typehints / adapt_class_type is
         guarded by a test that its input is not yet of the target form, or its arm
         accepts its own output by construction
  C10.b  every configuration returned by a parse method has passed validate()
         (re-stated from C02.c) and parse_object re-applies actions on the given object
  C10.c  the "__path__" metadata a checker pops before conversion is put back on every
         normal path on which it was present (both _check_type siblings)
Not decided: idempotence of normalisation for all values (paths, defaults filled in
on a second parse, byte-identical dumps).
"""

from __future__ import annotations

import ast
from typing import List, Optional, Tuple

from .convsites import conversion_sites
from .report import Ctx
from .srcmodel import call_leaf, calls_in, const_str, contains, src, walk_local
from .util import body_raises, branch_when, core_stmts, guard_chain, root_name, strip_not

VALUE_NAMES = {"val", "value", "init_args"}


def _negative_type_test(test: ast.AST, pol: bool) -> Optional[str]:
    """If the guard says 'the value is not (yet) of the target form', describe it."""
    # conjunctions: any conjunct under positive polarity counts
    parts = [(test, pol)]
    out = []
    while parts:
        t, p = parts.pop()
        inner, pos = strip_not(t)
        eff = p == pos
        if isinstance(inner, ast.BoolOp):
            if (isinstance(inner.op, ast.And) and eff) or (isinstance(inner.op, ast.Or) and not eff):
                parts += [(v, eff) for v in inner.values]
            continue
        if isinstance(inner, ast.Call):
            leaf = call_leaf(inner)
            argn = {root_name(a) for a in inner.args}
            if leaf in ("is_value_of_type", "isinstance", "is_instance_or_supports_protocol") and argn & VALUE_NAMES:
                second = ast.unparse(inner.args[1]) if len(inner.args) > 1 else ""
                if not eff:
                    out.append(f"not {ast.unparse(inner)}")
                elif leaf == "isinstance" and second in ("str", "NestedArg", "(dict, Namespace)", "(dict, Namespace, NestedArg)"):
                    # positive test on the *input* form (text / nested argument / spec), which the output never has
                    out.append(ast.unparse(inner))
    return out[0] if out else None


def run(ctx: Ctx) -> int:
    ad = ctx.func("_typehints:adapt_typehints")
    n = 0
    for ref in ("_typehints:adapt_typehints", "_typehints:adapt_class_type"):
        fn = ctx.func(ref)
        for cands in conversion_sites(fn):
            for kind, node in cands:
                if kind != "D":
                    continue
                n += 1
                leaf = call_leaf(node) if isinstance(node, ast.Call) else "typehint[val]"
                why = None
                for t, pol in guard_chain(node, stop=fn):
                    why = _negative_type_test(t, pol)
                    if why:
                        break
                how = None
                if why:
                    how = f"guarded by `{why}`"
                elif leaf in ("tuple", "set"):
                    # Tuple/Set arm accepts list, tuple and set: its own output is accepted and rebuilt
                    arm_tests = [x for x in walk_local(fn) if isinstance(x, ast.If) and "isinstance(val, (list, tuple, set))" in ast.unparse(x.test)]
                    if arm_tests and isinstance(arm_tests[0].test, ast.UnaryOp):
                        how = "the arm accepts list, tuple and set alike (its own output is a valid input)"
                elif leaf in ("OrderedDict", "MappingProxyType"):
                    accepts_dict = any(isinstance(x, ast.If) and ast.unparse(strip_not(x.test)[0]) == "isinstance(val, dict)" and body_raises(branch_when(x, False), ctx.noreturn) is not None for x in walk_local(fn))
                    unwrap = any(isinstance(x, ast.If) and "isinstance(val, MappingProxyType)" in ast.unparse(x.test) and any(isinstance(b, ast.Assign) and "dict(val)" in ast.unparse(b.value) for b in x.body) for x in walk_local(fn))
                    if leaf == "OrderedDict" and accepts_dict:
                        how = "an OrderedDict is a dict: accepted again by the arm's entry test"
                    if leaf == "MappingProxyType" and unwrap:
                        how = "a MappingProxyType is unwrapped to dict before it is wrapped again"
                elif leaf == "parse_object":
                    po_fn = ctx.func("_core:ArgumentParser.parse_object")
                    ann = ast.unparse(po_fn.args.args[1].annotation) if po_fn.args.args[1].annotation is not None else ""
                    if "Namespace" in ann:
                        how = "the per-class parser's parse_object accepts an already parsed Namespace and re-checks it"
                elif leaf == "validate_annotated":
                    how = "validation of an Annotated base-type value (returns a value of the base type; trusted idempotent)"
                ctx.oblige(
                    "C10.a",
                    how is not None,
                    node,
                    f"conversion {src(node, 50)} is {how}" if how else f"conversion {src(node, 50)} runs unconditionally: an already converted value is converted again on validate / re-parse",
                    fn=fn,
                )
    ctx.floor("C10.a", n, 9)
    # the very first early-out and the instance early-outs
    firsts = [x for x in ad.body if isinstance(x, ast.If) and "val == default" in ast.unparse(x.test)]
    first = firsts[0] if firsts else ad
    gad = ctx.cfg(ad)
    ok = bool(firsts) and len(core_stmts(first.body)) == 1 and isinstance(core_stmts(first.body)[0], ast.Return) and all(isinstance(b, (ast.Pass, ast.Expr)) for b in ad.body[: ad.body.index(first)])
    ctx.oblige("C10.a", ok, first, "scalar values equal to the default are returned untouched" if ok else "the default early-out of adapt_typehints changed", fn=ad, construct="default early-out")
    inst = [x for x in walk_local(ad) if isinstance(x, ast.If) and ast.unparse(x.test) == "is_instance_or_supports_protocol(val, typehint)"]
    ok = bool(inst) and any(isinstance(r, ast.Return) and root_name(r.value) == "val" for r in walk_local(inst[0]))
    ctx.oblige("C10.a", ok, inst[0] if inst else ad, "an instance of the declared class is returned as is" if ok else "instances of the declared class are no longer passed through", fn=ad, construct="instance early-out")
    # leaf types: text is loaded only if it is text
    leafs = [x for x in walk_local(ad) if isinstance(x, ast.If) and "isinstance(val, str) and typehint is not str" in ast.unparse(x.test)]
    ok = bool(leafs) and any(call_leaf(c) == "json_or_yaml_load" for c in calls_in(leafs[0]))
    ctx.oblige("C10.a", ok, leafs[0] if leafs else ad, "basic types are loaded from text only when the value is text (a parsed int/float/bool is not re-loaded)" if ok else "basic-type loading is no longer guarded by isinstance(val, str)", fn=ad, construct="leaf load guard")

    # ---------------- C10.b ---------------------------------------------------
    pc = ctx.func("_core:ArgumentParser._parse_common")
    g = ctx.cfg(pc)
    val = [c for c in calls_in(pc) if call_leaf(c) == "validate" and root_name(c.func) == "self"]
    rets = [r for r in walk_local(pc) if isinstance(r, ast.Return)]
    t = [x for x in walk_local(pc) if isinstance(x, ast.If) and any(contains(x, v) for v in val)]
    ok = bool(val) and bool(t) and g.dominates(g.cn(val), g.cn(rets), removed_edges=g.branch_edges(t[-1], "f"))
    ctx.oblige("C10.b", ok, val[0] if val else pc, "every returned configuration has passed validate() (unless explicitly skipped)" if ok else "a parse result can be returned unvalidated", fn=pc)
    po = ctx.func("_core:ArgumentParser.parse_object")
    aps = [c for c in calls_in(po) if call_leaf(c) == "_apply_actions"]
    ok = len(aps) >= 2 and any("cfg_obj" in ast.unparse(c.args[0]) for c in aps if c.args)
    ctx.oblige("C10.b", ok, aps[0] if aps else po, "parse_object runs the same per-key checker over the given object (a parse result is re-checked, not trusted)" if ok else "parse_object no longer applies actions to the given object", fn=po)
    from .util import guard_atoms

    for c in aps:
        atoms = guard_atoms(c, stop=po)
        ok = not atoms
        ctx.oblige("C10.b", ok, c, "this normalisation pass of parse_object is unconditional" if ok else f"this normalisation pass of parse_object only runs under {[ast.unparse(t) for t, _ in atoms]}: otherwise defaults reach the result un-normalised ([3, 3] for a Tuple, '0' for an int key) and parse_object(result) converts them - the result is not a fixed point", fn=po)

    # every configuration that enters parse_object from outside (the object itself, cfg_base) passes the per-key checker
    # before the result is decided: a merge of a parameter into the running configuration is followed, on every path to
    # _parse_common, by an _apply_actions pass over that running configuration
    gpo = ctx.cfg(po)
    po_params = {a_.arg for a_ in po.args.args + po.args.kwonlyargs} - {"self"}
    pcs = [c for c in calls_in(po) if call_leaf(c) == "_parse_common"]
    ctx.need(pcs, "parse_object: _parse_common call")
    n_mb = 0
    for s_ in walk_local(po):
        if isinstance(s_, ast.Assign) and isinstance(s_.value, ast.Call) and call_leaf(s_.value) == "merge_config" and s_.value.args and isinstance(s_.value.args[0], ast.Name) and s_.value.args[0].id in po_params and isinstance(s_.targets[0], ast.Name):
            n_mb += 1
            run_v = s_.targets[0].id
            passes = [a_ for a_ in walk_local(po) if isinstance(a_, ast.Assign) and isinstance(a_.value, ast.Call) and call_leaf(a_.value) == "_apply_actions" and a_.value.args and isinstance(a_.value.args[0], ast.Name) and a_.value.args[0].id == run_v and isinstance(a_.targets[0], ast.Name) and a_.targets[0].id == run_v]
            ok = bool(passes) and gpo.must_pass(gpo.cn(passes), gpo.cn(s_), gpo.cn(pcs), exclude_labels={"e"}, strict=True)
            ctx.oblige("C10.b", ok, s_, f"`{s_.value.args[0].id}` is normalised by the per-key checker after it was merged in" if ok else f"`{s_.value.args[0].id}` is merged into the configuration after the normalisation pass: its values reach the result raw ([3, 4] for a Tuple, 1 for a float, '1' for an int key), validate() accepts them, and parsing the result again converts them - the result is not a fixed point", fn=po, construct=f"{s_.value.args[0].id} normalised after merge")
    ctx.floor("C10.b-merged-parameters", n_mb, 1)

    # text that loads to text stays as it was written: replacing "'1.10'" by "1.10" makes the next pass read 1.1
    pvc = ctx.func("_util:parse_value_or_config")
    vp = pvc.args.args[0].arg
    lv = [s for s in walk_local(pvc) if isinstance(s, ast.Assign) and isinstance(s.value, ast.Call) and call_leaf(s.value) == "load_value" and isinstance(s.targets[0], ast.Name) and s.value.args and isinstance(s.value.args[0], ast.Name) and s.value.args[0].id == vp and s.targets[0].id != vp]
    ctx.need(len(lv) == 1, "parse_value_or_config: <parsed> = load_value(<value>, ...)")
    pv = lv[0].targets[0].id
    repl = [s for s in walk_local(pvc) if isinstance(s, ast.Assign) and isinstance(s.value, ast.Name) and s.value.id == pv and any(isinstance(t, ast.Name) and t.id == vp for t in s.targets)]
    ok = bool(repl)
    for s in repl:
        good = False
        for t, pol in guard_chain(s, stop=pvc):
            inner, pos = strip_not(t)
            eff = pol == pos
            txt = ast.unparse(inner).replace(" ", "")
            if txt in (f"type({pv})isnotstr", f"type({pv})!=str") and eff:
                good = True
            if txt in (f"type({pv})isstr", f"type({pv})==str", f"isinstance({pv},str)") and not eff:
                good = True
        ok = ok and good
    ctx.oblige("C10.a", ok, repl[0] if repl else pvc, "a text value is replaced by its loaded form only when that form is not text" if ok else "a text value can be replaced by a loaded form that is itself text (quotes stripped): on the next pass the unquoted text is read as a number / bool / null, so parse(result) != result", fn=pvc, construct="text stays text")

    # ---------------- C10.c ---------------------------------------------------
    # metadata pairing: a value's "__path__" entry that a checker pops before converting/validating it is put
    # back on every normal path on which it was present (otherwise parse(result) != result for results with_meta)
    n_pairs = 0
    for ref in ("_typehints:ActionTypeHint._check_type", "_jsonschema:ActionJsonSchema._check_type"):
        fn = ctx.func(ref)
        gf = ctx.cfg(fn)
        pops = [
            s
            for s in walk_local(fn)
            if isinstance(s, ast.Assign) and len(s.targets) == 1 and isinstance(s.targets[0], ast.Name) and any(call_leaf(c) == "pop" and c.args and const_str(c.args[0]) == "__path__" for c in calls_in(s.value))
        ]
        bare = [e for e in walk_local(fn) if isinstance(e, ast.Expr) and isinstance(e.value, ast.Call) and call_leaf(e.value) == "pop" and e.value.args and const_str(e.value.args[0]) == "__path__"]
        bare += [d for d in walk_local(fn) if isinstance(d, ast.Delete) and any(isinstance(t, ast.Subscript) and const_str(t.slice) == "__path__" for t in d.targets)]
        for e in bare:
            n_pairs += 1
            ctx.oblige("C10.c", False, e, 'the "__path__" metadata is removed from the value and not remembered: it cannot be put back, so re-parsing a result that carries the metadata returns a different configuration', fn=fn)
        for s in pops:
            n_pairs += 1
            pn = s.targets[0].id
            stores = [
                t
                for t in walk_local(fn)
                if isinstance(t, ast.Assign) and isinstance(t.targets[0], ast.Subscript) and const_str(t.targets[0].slice) == "__path__" and isinstance(t.value, ast.Name) and t.value.id == pn
            ]
            rebound = [t for t in walk_local(fn) if isinstance(t, ast.Assign) and t is not s and any(isinstance(x, ast.Name) and x.id == pn for tg in t.targets for x in ast.walk(tg))]
            removed_edges = set()
            for t in walk_local(fn):
                if not isinstance(t, (ast.If, ast.While)):
                    continue
                tt = t.test
                if isinstance(tt, ast.Name) and tt.id == pn:
                    removed_edges |= gf.branch_edges(tt, "f")
                elif isinstance(tt, ast.Compare) and len(tt.ops) == 1 and isinstance(tt.left, ast.Name) and tt.left.id == pn and isinstance(tt.comparators[0], ast.Constant) and tt.comparators[0].value is None:
                    if isinstance(tt.ops[0], ast.IsNot):
                        removed_edges |= gf.branch_edges(tt, "f")
                    elif isinstance(tt.ops[0], ast.Is):
                        removed_edges |= gf.branch_edges(tt, "t")
            loops = [l for l in walk_local(fn) if isinstance(l, (ast.For, ast.While)) and contains(l, s)]
            ends = [gf.exit] + [i for l in loops for i in gf.by_ast.get(id(l), [])] + [i for l in loops for i in gf.by_ast.get(id(l.iter), [])]
            starts = [t for i in gf.cn(s) for t, lab in gf.nodes[i].succ if lab != "e"]
            reach = gf.reachable(starts, removed=gf.cn(stores), exclude_labels={"e"}, removed_edges=removed_edges, include_srcs=True)
            ok = bool(stores) and not rebound and not (reach & set(ends))
            path = None if ok else gf.find_path(starts, ends, removed=gf.cn(stores), exclude_labels={"e"})
            ctx.oblige(
                "C10.c",
                ok,
                s,
                f'the "__path__" metadata popped into `{pn}` is put back (`[..."__path__"] = {pn}`) on every normal path on which it was present'
                if ok
                else f'the "__path__" metadata popped into `{pn}` is not put back on every normal path: re-parsing a result that carries the metadata returns a different configuration',
                fn=fn,
                details={"path": gf.describe_path(path)},
            )
    ctx.floor("C10.c-meta-pops", n_pairs, 2)

    # load_value keeps the ORIGINAL TEXT whenever the loader made a scalar of it (the type decides later what the text
    # means): the class tuple of that test names every scalar class a yaml / json loader can return
    lvf = ctx.func("_loaders_dumpers:load_value")
    keep = [c for c in calls_in(lvf) if call_leaf(c) == "isinstance" and len(c.args) == 2 and isinstance(c.args[1], ast.Tuple) and any(isinstance(e, ast.Name) and e.id == "str" for e in c.args[1].elts)]
    ctx.need(keep, "load_value: isinstance(<loaded>, (int, float, bool, str))")
    for c in keep:
        have_ = {e.id for e in c.args[1].elts if isinstance(e, ast.Name)}
        missing_ = {"int", "float", "bool", "str"} - have_
        ok = not missing_
        ctx.oblige("C10.a", ok, c, "text that loads as int, float, bool or str is handed to the type as the text that was written" if ok else f"load_value no longer keeps the text of values that load as {sorted(missing_)}: '--n=4.0' reaches an int type as the float 4.0 (accepted although int('4.0') fails), a Decimal given on the command line goes through a binary float (--d=0.1000000000000000055511151231257827 -> Decimal('0.1')) - the command line and a config file disagree", fn=lvf, construct="scalar classes kept as text")

    # ---------------- C10.d the name written for an object denotes that object ---------------------------------------
    # an importable module-level INSTANCE is dumped as the dotted name of the module variable that holds it; parsing
    # that name gives back the variable's value - the same object only if the variable was chosen by identity
    # (an equal-but-distinct instance earlier in the module would be named instead; the serializer's identity
    # re-check then fails and the dump holds an "Unable to serialize" text)
    gmv = ctx.func("_util:get_module_var_path")
    vpar = gmv.args.args[1].arg
    cmps = [c_ for c_ in walk_local(gmv) if isinstance(c_, ast.Compare) and any(isinstance(n_, ast.Name) and n_.id == vpar for n_ in [c_.left] + c_.comparators)]
    ctx.need(cmps, "get_module_var_path: comparison of a module variable with the value")
    for c_ in cmps:
        ok = all(isinstance(o, (ast.Is, ast.IsNot)) for o in c_.ops)
        ctx.oblige("C10.d", ok, c_, "the module variable is matched by identity" if ok else f"`{ast.unparse(c_)}` matches a module variable by equality: for a class with __eq__ an earlier equal instance is named instead of the object itself - dump writes a name that parses to a different object (or the serializer's identity re-check fails and the dump no longer parses)", fn=gmv, construct="module variable matched by identity")

    return ctx.finish(
        explanation=(
            "For every deserialising conversion site of adapt_typehints/adapt_class_type (found by callee, shared with C01.e) the lexical control dependence must contain a test that the value "
            "is not yet of the target form (not is_value_of_type / not isinstance / input is text, spec or NestedArg), or the arm accepts its own output by construction (tuple/set, OrderedDict, "
            "MappingProxyType unwrap). Narrow: decides that the early-outs for already adapted values exist on every conversion; idempotence for all values is not decided."
        ),
        rule_text="one obligation per deserialising conversion site and early-out",
    )
