"""C06 - unknown keys are never silently ignored; required keys are enforced.

Decided clauses:
  C06.a  validate.check_values: a key without action is skipped only under the
         branch-key / whole-parent tests, every other path raises NSKeyError;
         TypedDict arm: extra keys raise
  C06.b  parse_args: leftover argv reaches self.error on every path to a return
  C06.c  parse_known_args stays closed to external callers
  C06.d  `required` is moved to required_args, never dropped; who may remove a
         required key; validate enforces required_args unless explicitly skipped
  C06.e  init_args of a class go through the parser built for that class
  C06.f  the key-prefix tests behind the two permitted skips (_is_branch_key and
         check_values' whole-parent test) end with the separator: only whole key
         components match
Not decided: that every position of every configuration tree is covered.
"""

from __future__ import annotations

import ast
from typing import List, Set, Tuple

from .report import Ctx
from .srcmodel import call_leaf, call_name, calls_in, const_str, contains, dotted, get_kwarg, qualname, src, walk_local
from .util import body_raises, enclosing_trys, guard_chain, nested_defs, root_name, strip_not

NX = {"e"}

REQUIRED_REMOVERS_ALLOWED = {
    "_link_arguments:ActionLink.__init__": "a link target is computed, not required from the user",
    "_typehints:ActionTypeHint.get_class_parser": "init_args that are link targets upstream (under linked_targets)",
}




def _name_given(v: ast.AST) -> bool:
    """`<local> is not None` or a bare `<local>` (truthiness of the chosen name)."""
    if isinstance(v, ast.Name):
        return True
    return isinstance(v, ast.Compare) and isinstance(v.left, ast.Name) and len(v.ops) == 1 and isinstance(v.ops[0], ast.IsNot) and isinstance(v.comparators[0], ast.Constant) and v.comparators[0].value is None

def _decision_asked(t: ast.AST) -> bool:
    """Guard under which get_subcommands must come to a decision: `fail_no_subcommand`, possibly widened by
    `subcommand is not None` (a name that was given is always checked)."""
    if isinstance(t, ast.BoolOp) and isinstance(t.op, ast.Or):
        return all(ast.unparse(v) == "fail_no_subcommand" or _name_given(v) for v in t.values) and any(ast.unparse(v) == "fail_no_subcommand" for v in t.values)
    return ast.unparse(t) == "fail_no_subcommand"

def run(ctx: Ctx) -> int:
    # ---------------- C06.a ---------------------------------------------------
    validate = ctx.func("_core:ArgumentParser.validate")
    cv = nested_defs(validate).get("check_values")
    ctx.need(cv, "validate.check_values")
    g = ctx.cfg(cv)
    loops = [n for n in walk_local(cv) if isinstance(n, ast.For)]
    ctx.need(loops, "check_values: loop over keys")
    lp = loops[0]
    tgt_names = [n.id for n in ast.walk(lp.target) if isinstance(n, ast.Name)]
    ctx.need("action" in tgt_names and "key" in tgt_names, "check_values loop binds key, action")
    reassigned = [s for s in walk_local(lp) if isinstance(s, (ast.Assign, ast.AugAssign)) and any(isinstance(n, ast.Name) and n.id == "action" and isinstance(n.ctx, ast.Store) for n in ast.walk(s))]
    ctx.need(not reassigned, "check_values: `action` is not reassigned inside the loop (flag-sensitive pruning relies on it)")
    head = g.node_ids_of(lp)
    # tests on `action is None` / `action is not None`
    none_t, notnone_t = [], []
    for n in walk_local(lp):
        if isinstance(n, ast.If) and isinstance(n.test, ast.Compare) and root_name(n.test.left) == "action" and isinstance(n.test.left, ast.Name) and len(n.test.ops) == 1 and isinstance(n.test.comparators[0], ast.Constant) and n.test.comparators[0].value is None:
            (none_t if isinstance(n.test.ops[0], ast.Is) else notnone_t).append(n)
    ctx.need(none_t and notnone_t, "check_values: tests `action is None` and `action is not None`")
    removed: Set[Tuple[int, int, str]] = set()
    for t in none_t:
        removed |= g.branch_edges(t, "f")
    for t in notnone_t:
        removed |= g.branch_edges(t, "t")
    # permitted skips: `continue` directly under _is_branch_key(...) or under the whole-parent test
    conts = [n for n in walk_local(lp) if isinstance(n, ast.Continue)]
    ok_conts, bad_conts = [], []
    for c in conts:
        gch = guard_chain(c, stop=lp)
        if not any(t is none_t[0].test and pol for t, pol in gch):
            continue  # continue on the known-action side (None value / lenient): not this rule
        inner = gch[0][0]
        txt = ast.unparse(inner)
        if isinstance(inner, ast.Call) and call_leaf(inner) == "_is_branch_key" and gch[0][1]:
            ok_conts.append(c)
        elif "parent_key" in txt and "parent_action" in txt and "startswith" in txt and gch[0][1]:
            ok_conts.append(c)
        else:
            bad_conts.append(c)
    raises = [r for r in walk_local(lp) if isinstance(r, ast.Raise) and isinstance(r.exc, ast.Call) and call_leaf(r.exc) == "NSKeyError"]
    ctx.need(raises, "check_values: raise NSKeyError")
    for c in bad_conts:
        ctx.oblige("C06.a", False, c, "a key without action is skipped under a test that is neither the branch-key nor the whole-parent test", fn=cv)
    via = g.cn(ok_conts) + g.cn(raises)
    starts = [t for tnode in none_t for (a, t, lab) in g.branch_edges(tnode, "t")]
    ok = g.must_pass(via, starts, head + [g.exit], exclude_labels=NX, removed_edges=removed)
    path = None if ok else g.find_path(starts, head + [g.exit], removed=via, exclude_labels=NX)
    ctx.oblige(
        "C06.a",
        ok,
        none_t[0],
        "every path for a key without action ends in NSKeyError or in one of the two permitted skips (branch key / covered by its parent action)" if ok else "a key without action can fall through to the next key silently",
        fn=cv,
        details={"path": g.describe_path(path)},
    )
    ctx.oblige("C06.a", len(ok_conts) == 2, lp, "exactly the two documented skip conditions exist for unknown keys" if len(ok_conts) == 2 else f"{len(ok_conts)} skip conditions for unknown keys (expected the branch-key and whole-parent tests)", fn=cv, construct="skip conditions")
    # known-key side: the value check is skipped / its failure swallowed only under the documented conditions
    cvk = [c for c in calls_in(lp) if call_leaf(c) == "_check_value_key"]
    ctx.need(len(cvk) == 1 and len(cvk[0].args) >= 2 and isinstance(cvk[0].args[1], ast.Name), "check_values: one _check_value_key(action, <value>, ...) call")
    vname = cvk[0].args[1].id
    for c in conts:
        gch = guard_chain(c, stop=lp)
        if any(t is none_t[0].test and pol for t, pol in gch):
            continue  # unknown-key side, handled above
        t0 = gch[0][0] if gch else None
        atoms = []
        bad_atoms = []
        for part in ast.walk(t0) if t0 is not None else []:
            if isinstance(part, ast.Compare) and any(isinstance(x, ast.Name) and x.id == vname for x in ast.walk(part)):
                is_none = len(part.ops) == 1 and isinstance(part.ops[0], ast.Is) and isinstance(part.left, ast.Name) and part.left.id == vname and isinstance(part.comparators[0], ast.Constant) and part.comparators[0].value is None
                (atoms if is_none else bad_atoms).append(ast.unparse(part))
        used = {x.id for x in ast.walk(t0) if isinstance(x, ast.Name)} if t0 is not None else set()
        truthy = t0 is not None and any(isinstance(x, ast.Name) and x.id == vname and not isinstance(getattr(x, "_jv_parent", None), ast.Compare) for x in ast.walk(t0))
        ok = t0 is not None and not bad_atoms and not truthy and used <= {vname, "skip_none", "lenient_check"}
        ctx.oblige("C06.a", ok, c, "a known key's value check is skipped only for None (skip_none) or in lenient mode" if ok else f"a known key's value check is skipped under `{ast.unparse(t0) if t0 is not None else 'no condition'}`: values other than None bypass validation", fn=cv)
    trys = [t for t, part in enclosing_trys(cvk[0]) if part == "body"]
    ctx.need(trys, "check_values: _check_value_key inside try")
    for h in trys[0].handlers:
        rz = [r for r in ast.walk(h) if isinstance(r, ast.Raise)]
        if not rz:
            ctx.oblige("C06.a", False, h, "a failed value check is swallowed unconditionally in validate", fn=cv)
            continue
        gch = [(t, pol) for t, pol in guard_chain(rz[0], stop=h)]
        ok = len(gch) == 1
        parts: list = []
        if ok:
            inner, pos = strip_not(gch[0][0])
            ok = (gch[0][1] == pos) is False and isinstance(inner, ast.BoolOp) and isinstance(inner.op, ast.And)
            parts = inner.values if ok else []
        v_parts = [p for p in parts if any(isinstance(x, ast.Name) and x.id == vname for x in ast.walk(p))]
        ok_v = len(v_parts) == 1 and isinstance(v_parts[0], ast.Compare) and len(v_parts[0].ops) == 1 and isinstance(v_parts[0].ops[0], ast.Eq) and isinstance(v_parts[0].comparators[0], ast.Dict) and not v_parts[0].comparators[0].keys
        ok_t = any(isinstance(p, ast.Call) and call_leaf(p) == "is_subclass_typehint" for p in parts)
        ok_r = any(isinstance(p, ast.Compare) and isinstance(p.ops[0], ast.NotIn) and "required_args" in ast.unparse(p.comparators[0]) for p in parts)
        ok = ok and ok_v and ok_t and ok_r
        ctx.oblige(
            "C06.a",
            ok,
            rz[0],
            "a failed value check is re-raised unless the value is exactly {} for a non-required subclass-typed key" if ok else f"the exemption under which validate swallows a failed value check changed (`{ast.unparse(gch[0][0]) if gch else '?'}`): values other than an empty {{}} for an optional subclass key pass validation although their type check failed",
            fn=cv,
        )

    # check_values is actually called on the configuration
    cvc = [c for c in calls_in(validate) if isinstance(c.func, ast.Name) and c.func.id == "check_values"]
    gv = ctx.cfg(validate)
    ok = bool(cvc) and gv.must_pass(gv.cn(cvc), [gv.entry], [gv.exit], exclude_labels={"e", "r"}) and not guard_chain(cvc[0])
    ctx.oblige("C06.a", ok, cvc[0] if cvc else validate, "validate runs check_values unconditionally" if ok else "validate can return without running check_values", fn=validate)
    # the keys iterated are all keys of the config
    it_src = ast.unparse(lp.iter)
    sk = [s for s in walk_local(cv) if isinstance(s, ast.Assign) and root_name(s.targets[0]) == root_name(lp.iter)]
    ok = bool(sk) and "get_sorted_keys()" in ast.unparse(sk[0].value) and not [i for i in ast.walk(sk[0].value) if isinstance(i, ast.comprehension) and i.ifs]
    ctx.oblige("C06.a", ok, sk[0] if sk else lp, "check_values visits every key of the configuration (unfiltered get_sorted_keys())" if ok else "the key set visited by check_values is filtered", fn=cv, construct="all keys visited")

    # TypedDict arm
    ad = ctx.func("_typehints:adapt_typehints")
    ctx.expect_locals(ad, ["extra_keys", "val", "typehint"])
    ek_if = [n for n in walk_local(ad) if isinstance(n, ast.If) and isinstance(n.test, ast.Name) and n.test.id == "extra_keys"]
    ek_as = [s for s in walk_local(ad) if isinstance(s, ast.Assign) and root_name(s.targets[0]) == "extra_keys"]
    ok = bool(ek_if) and bool(ek_as)
    if ok:
        ok = body_raises(ek_if[0].body, ctx.noreturn) is not None
        v = ek_as[0].value
        ok = ok and isinstance(v, ast.BinOp) and isinstance(v.op, ast.Sub) and "val.keys()" in ast.unparse(v.left) and "__annotations__" in ast.unparse(v.right)
        ga = ctx.cfg(ad)
        ok = ok and not ek_if[0].orelse
    ctx.oblige("C06.a", ok, ek_if[0] if ek_if else ad, "TypedDict values with keys outside the annotations are rejected" if ok else "extra keys of a TypedDict value are no longer rejected", fn=ad, construct="typeddict extra keys")

    # ---------------- C06.b ---------------------------------------------------
    pa = ctx.func("_core:ArgumentParser.parse_args")
    g = ctx.cfg(pa)
    pk = [c for c in calls_in(pa) if call_leaf(c) == "parse_known_args"]
    ctx.need(pk, "parse_args: parse_known_args call")
    pk_stmt = [s for s in walk_local(pa) if isinstance(s, ast.Assign) and s.value is pk[0]]
    ctx.need(pk_stmt and isinstance(pk_stmt[0].targets[0], ast.Tuple) and len(pk_stmt[0].targets[0].elts) == 2, "parse_args: cfg, unk = self.parse_known_args(...)")
    unk = pk_stmt[0].targets[0].elts[1].id
    tests = [n for n in walk_local(pa) if isinstance(n, ast.If) and isinstance(n.test, ast.Name) and n.test.id == unk]
    ok = bool(tests)
    if ok:
        b0 = body_raises(tests[0].body, ctx.noreturn)
        ok = b0 is not None and isinstance(b0, ast.Expr) and call_leaf(b0.value) == "error"
    rets = [r for r in walk_local(pa) if isinstance(r, ast.Return)]
    if ok:
        tn = [i for t in tests for i in g.node_ids_of(t)]
        ok = g.must_pass(tn, g.cn(pk), g.cn(rets), strict=True)
        # unk is only rebound from _positional_optionals in between
        reb = [s for s in walk_local(pa) if isinstance(s, ast.Assign) and s is not pk_stmt[0] and any(isinstance(n, ast.Name) and n.id == unk and isinstance(n.ctx, ast.Store) for n in ast.walk(s))]
        ok = ok and all(isinstance(s.value, ast.Call) and call_leaf(s.value) == "_positional_optionals" for s in reb)
    ctx.oblige("C06.b", ok, tests[0] if tests else pa, "leftover command line items reach self.error('Unrecognized arguments') on every path to a return" if ok else "parse_args can return while unparsed command line items remain", fn=pa)

    # ---------------- C06.c ---------------------------------------------------
    pka = ctx.func("_core:ArgumentParser.parse_known_args")
    g = ctx.cfg(pka)
    inner = [c for c in calls_in(pka) if call_leaf(c) == "_parse_known_args"]
    guards = [n for n in walk_local(pka) if isinstance(n, ast.If) and any(isinstance(r, ast.Raise) and "NotImplementedError" in ast.unparse(r) for r in n.body)]
    ctx.need(inner, "parse_known_args: _parse_known_args call")
    ok = bool(guards)
    if ok:
        t = guards[0].test
        allowed = {const_str(e) for e in ast.walk(t) if isinstance(e, ast.Constant)}
        ok = isinstance(t, ast.Compare) and isinstance(t.ops[0], ast.NotIn) and allowed == {"jsonargparse", "argcomplete"}
        ok = ok and g.dominates(g.node_ids_of(guards[0]), g.cn(inner))
    ctx.oblige("C06.c", ok, guards[0] if guards else pka, "external callers of parse_known_args are refused before any parsing happens" if ok else "parse_known_args became usable by external callers", fn=pka)

    # ---------------- C06.d ---------------------------------------------------
    n_clear = 0
    for fq, fn in ctx.repo.all_funcs():
        for s in walk_local(fn):
            if isinstance(s, ast.Assign) and any(isinstance(t, ast.Attribute) and t.attr == "required" for t in s.targets) and isinstance(s.value, ast.Constant) and s.value.value is False:
                n_clear += 1
                adds = [c for c in calls_in(fn) if call_leaf(c) == "add" and isinstance(c.func, ast.Attribute) and dotted(c.func.value) and dotted(c.func.value).endswith("required_args")]
                gf = ctx.cfg(fn)
                good = False
                for a in adds:
                    ga_ = guard_chain(a)
                    gs_ = guard_chain(s)
                    if len(ga_) != 1 or not ga_[0][1]:
                        continue
                    tnames = {n.id if isinstance(n, ast.Name) else n.attr for n in ast.walk(ga_[0][0]) if isinstance(n, (ast.Name, ast.Attribute))}
                    if "required" not in tnames:
                        continue
                    if gs_ and not (len(gs_) == 1 and gs_[0][0] is ga_[0][0]):
                        continue
                    if gf.can_reach(gf.cn(s), gf.cn(a)):
                        continue
                    good = True
                ctx.oblige("C06.d", good, s, "argparse's own `required` is cleared only after the key was recorded in required_args under the same condition" if good else "`required` is cleared without moving the key to required_args: the argument silently stops being required", fn=fn)
    ctx.floor("C06.d-clear-sites", n_clear, 2)

    # every registration of a required key depends on the `required` flag alone
    n_add = 0
    for fq, fn in ctx.repo.all_funcs():
        for a in calls_in(fn):
            if not (call_leaf(a) == "add" and isinstance(a.func, ast.Attribute) and dotted(a.func.value) and dotted(a.func.value).endswith(".required_args")):
                continue
            n_add += 1
            gch = guard_chain(a, stop=fn)

            def _is_req(t):
                return (isinstance(t, ast.Name) and "required" in t.id) or (isinstance(t, ast.Attribute) and "required" in t.attr)

            extra_g = [ast.unparse(t) for t, pol in gch if not (_is_req(t) and pol)]
            ok = bool(gch) and not extra_g
            ctx.oblige(
                "C06.d",
                ok,
                a,
                "the key is recorded in required_args whenever it was declared required (no other condition)" if ok else f"recording the key in required_args additionally depends on {extra_g or 'nothing at all'}: an argument declared required is silently optional when that condition is false",
                fn=fn,
            )
    ctx.floor("C06.d-required-adds", n_add, 3)

    mv = ctx.func("_actions:ActionParser._move_parser_actions")
    sc = [s for s in walk_local(mv) if isinstance(s, ast.Assign) and root_name(s.targets[0]) == "required_args" and isinstance(s.value, ast.SetComp)]
    up = [c for c in calls_in(mv) if call_leaf(c) == "update" and dotted(c.func.value) == "parser.required_args" and c.args and root_name(c.args[0]) == "required_args"]
    ok = bool(sc) and bool(up) and "subparser.required_args" in ast.unparse(sc[0].value.generators[0].iter) and not sc[0].value.generators[0].ifs
    ctx.oblige("C06.d", ok, sc[0] if sc else mv, "an inner parser's required keys are carried over (prefixed) to the outer parser" if ok else "required keys of an inner parser are lost or filtered when it is attached", fn=mv, construct="move required_args")
    # configuration KEYS of the moved parser (required keys, action dests, group dests) are built from the dest form
    # of the option name (dashes replaced), option STRINGS from the raw name: `--inner-app` has the key `inner_app`
    norm = [s for s in walk_local(mv) if isinstance(s, ast.Assign) and isinstance(s.targets[0], ast.Name) and isinstance(s.value, ast.Call) and call_leaf(s.value) == "replace" and [const_str(a) for a in s.value.args] == ["-", "_"]]
    ctx.need(len(norm) == 1, "_move_parser_actions: <dest> = <prefix>.replace('-', '_')")
    dvar = norm[0].targets[0].id
    rawvar = root_name(norm[0].value.func)
    key_sites = []
    if sc:
        key_sites.append(("required key", sc[0].value.elt, sc[0]))
    for s in walk_local(mv):
        if isinstance(s, ast.Assign) and any(isinstance(t, ast.Attribute) and t.attr == "dest" for t in s.targets):
            key_sites.append(("dest", s.value, s))
    ctx.floor("C06.d-moved-keys", len(key_sites), 3)
    gmv = ctx.cfg(mv)
    for what, e, node in key_sites:
        names = {x.id for x in ast.walk(e) if isinstance(x, ast.Name)}
        ok = dvar in names and rawvar not in names and gmv.dominates(gmv.cn(norm), gmv.cn(node))
        ctx.oblige(
            "C06.d",
            ok,
            node,
            f"{what} of the moved parser is built from the dest form `{dvar}`" if ok else f"{what} of the moved parser is built from the raw option name `{rawvar}` (or before `{dvar}` exists): for an option with a dash (`--inner-app`) the key `inner-app.x` never matches the dest `inner_app.x` - a required argument can never be satisfied / a class group is not found under its key",
            fn=mv,
        )

    n_rm = 0
    for fq, fn in ctx.repo.all_funcs():
        for c in calls_in(fn):
            if call_leaf(c) in ("remove", "discard", "clear", "difference_update", "pop", "intersection_update") and isinstance(c.func, ast.Attribute) and dotted(c.func.value) and dotted(c.func.value).endswith("required_args"):
                n_rm += 1
                ok = fq in REQUIRED_REMOVERS_ALLOWED
                ctx.oblige("C06.d", ok, c, f"removal from required_args in its owner ({REQUIRED_REMOVERS_ALLOWED.get(fq)})" if ok else "a required key is removed outside the two functions that may do so", fn=fn)
        for s in walk_local(fn):
            if isinstance(s, (ast.Assign, ast.AnnAssign, ast.AugAssign)):
                tg = s.targets if isinstance(s, ast.Assign) else [s.target]
                for t in tg:
                    if isinstance(t, ast.Attribute) and t.attr == "required_args":
                        ok = fq == "_core:ArgumentParser.__init__" and not isinstance(s, ast.AugAssign)
                        ctx.oblige("C06.d", ok, s, "required_args is only created in ArgumentParser.__init__" if ok else "required_args is rebound outside ArgumentParser.__init__", fn=fn)
    ctx.floor("C06.d-remove-sites", n_rm, 2, defer=True)  # an edit that replaces a removal by a set difference is reported by the rebinding obligation above
    # get_class_parser removal is under linked_targets
    gcp = ctx.func("_typehints:ActionTypeHint.get_class_parser")
    for c in calls_in(gcp):
        if call_leaf(c) == "remove" and "required_args" in ast.unparse(c.func):
            gch = guard_chain(c)
            ok = any("linked_targets" in ast.unparse(t) for t, pol in gch if pol) and any(isinstance(a, ast.For) and "linked_targets" in ast.unparse(a.iter) for a in _anc(c))
            ctx.oblige("C06.d", ok, c, "only keys listed in linked_targets stop being required in a class parser" if ok else "get_class_parser drops required keys that are not link targets", fn=gcp, construct="class parser required removal guard")

    cr = nested_defs(validate).get("check_required")
    ctx.need(cr, "validate.check_required")
    crc = [c for c in calls_in(validate) if isinstance(c.func, ast.Name) and c.func.id == "check_required"]
    ok = bool(crc)
    if ok:
        gch = guard_chain(crc[0])
        names = {n.id for t, _ in gch for n in ast.walk(t) if isinstance(n, ast.Name)}
        ok = len(gch) == 1 and names <= {"skip_required", "lenient_check"} and gch[0][1]
        t = gch[0][0] if gch else None
        # the test must be a conjunction of negations: required is enforced unless explicitly skipped
        if ok:
            parts = t.values if isinstance(t, ast.BoolOp) and isinstance(t.op, ast.And) else [t]
            ok = all(isinstance(p, ast.UnaryOp) and isinstance(p.op, ast.Not) for p in parts)
    ctx.oblige("C06.d", ok, crc[0] if crc else validate, "required keys are checked unless skip_required / lenient mode is explicitly on" if ok else "check_required is guarded by something other than skip_required / lenient_check", fn=validate)
    lps = [n for n in walk_local(cr) if isinstance(n, ast.For) and "required_args" in ast.unparse(n.iter)]
    rec = [c for c in calls_in(cr) if isinstance(c.func, ast.Name) and c.func.id == "check_required"]
    rs = [r for r in walk_local(cr) if isinstance(r, ast.Raise)]
    ok = bool(lps) and bool(rec) and bool(rs) and any(call_leaf(c) == "get_subcommand" for c in calls_in(cr))
    if ok:
        none_test = [n for n in walk_local(lps[0]) if isinstance(n, ast.If) and "is None" in ast.unparse(n.test)]
        ok = bool(none_test) and ast.unparse(lps[0].iter) == "parser.required_args"
    ctx.oblige("C06.d", ok, cr, "check_required iterates all of parser.required_args, rejects missing and None values, and recurses into the selected subcommand" if ok else "check_required lost part of its coverage (iteration / None test / subcommand recursion)", fn=cr, construct="check_required coverage")

    # keys are removed from the configuration being parsed only after their value was consumed
    aa = ctx.func("_typehints:ActionTypeHint.apply_appends")
    ga = ctx.cfg(aa)
    pops = [c for c in calls_in(aa) if call_leaf(c) in ("pop", "__delitem__") and root_name(c.func) == "cfg"] + [s_ for s_ in walk_local(aa) if isinstance(s_, ast.Delete)]
    stores = [s_ for s_ in walk_local(aa) if isinstance(s_, ast.Assign) and isinstance(s_.targets[0], ast.Subscript) and root_name(s_.targets[0].value) == "cfg"]
    loops_a = [n_ for n_ in walk_local(aa) if isinstance(n_, ast.For)]
    ctx.need(pops and stores and loops_a, "apply_appends: store of the appended value and removal of the 'key+' entry")
    starts_a = [t for h in ga.node_ids_of(loops_a[0]) for t, lab in ga.nodes[h].succ if lab == "loop"]
    ok = ga.must_pass(ga.cn(stores), starts_a, ga.cn(pops), exclude_labels=NX)
    ctx.oblige("C06.a", ok, pops[0], "a 'key+' entry is removed only after its value was appended to 'key'" if ok else "a 'key+' entry can be removed from the configuration without having been applied: unknown or non-list keys ending in '+' vanish before validation sees them", fn=aa)
    # check_required recursion into the selected subcommand depends only on the selection
    rec_calls = [c for c in calls_in(cr) if isinstance(c.func, ast.Name) and c.func.id == "check_required"]
    if rec_calls:
        gch = guard_chain(rec_calls[0])
        names = {n_.id for t, _ in gch for n_ in ast.walk(t) if isinstance(n_, ast.Name)}
        ok = len(gch) == 1 and names <= {"subcommand", "subparser"}
        ctx.oblige("C06.d", ok, rec_calls[0], "required arguments of the selected subcommand are checked whenever a subcommand is selected" if ok else f"the check of the selected subcommand's required arguments is additionally guarded by {sorted(names - {'subcommand', 'subparser'})}: a missing or null section passes", fn=cr, construct="subcommand required recursion guard")

    # a required subcommand that cannot be determined is an error
    gs = ctx.func("_actions:_ActionSubCommands.get_subcommands")
    rz_s = [r for r in walk_local(gs) if isinstance(r, ast.Raise) and isinstance(r.exc, ast.Call) and call_leaf(r.exc) == "NSKeyError"]
    ok = bool(rz_s)
    if ok:
        gch = guard_chain(rz_s[0])
        txt = " ".join(ast.unparse(t) for t, pol in gch if pol)
        pos = []
        for t, pol in gch:
            if pol:
                pos += t.values if isinstance(t, ast.BoolOp) and isinstance(t.op, ast.And) else [t]
        ok = "_name_parser_map" in txt and "fail_no_subcommand" in txt
        # the only way past the raise without a known subcommand: the early `return None, None` for "nothing given, nothing required"
        extra_g = [ast.unparse(t) for t in pos if not ("_name_parser_map" in ast.unparse(t) or _decision_asked(t))]
        ok = ok and not extra_g
        early = [r for r in walk_local(gs) if isinstance(r, ast.Return) and any(_decision_asked(t) and pol for t, pol in guard_chain(r)) and r.lineno < rz_s[0].lineno]
        ok_early = all(any("is None" in ast.unparse(t) and pol for t, pol in guard_chain(r)) for r in early)
        ok = ok and ok_early
    # ... and a NAME THAT WAS GIVEN is checked whether or not a decision is asked for: the parser list handed out is
    # built with `_name_parser_map.get(name)`, which is None for an unknown name, and every caller dereferences it
    if rz_s:
        outer = [t for t, pol in guard_chain(rz_s[0]) if pol and "fail_no_subcommand" in ast.unparse(t)]
        always = not outer or all(isinstance(t, ast.BoolOp) and isinstance(t.op, ast.Or) and any(_name_given(v) and ast.unparse(v) != "fail_no_subcommand" for v in t.values) for t in outer)
        hands_out_get = any(isinstance(c_, ast.Call) and call_leaf(c_) == "get" and "_name_parser_map" in ast.unparse(c_.func) for r_ in walk_local(gs) if isinstance(r_, ast.Return) and r_.value is not None for c_ in ast.walk(r_.value))
        ctx.oblige(
            "C06.d",
            always or not hands_out_get,
            rz_s[0],
            "a subcommand name that was given is checked against the choices on every path" if (always or not hands_out_get) else "an unknown subcommand name is rejected only when a decision is asked for (fail_no_subcommand): while a --cfg item or a default config file is folded in (fail_no_subcommand=False) the name `zz` of `subcommand: zz` passes, its parser is None, and handle_subcommands dereferences it - AttributeError out of parse_args(['--cfg', 'subcommand: zz'])",
            fn=gs,
            construct="given name always checked",
        )
    ctx.oblige(
        "C06.d",
        ok,
        rz_s[0] if rz_s else gs,
        "a subcommand that is required but missing, or given but not among the choices, raises NSKeyError naming the key" if ok else "a subcommand name that is not among the choices (or a missing required one) is not always an error: get_subcommands hands back a None parser for it (AttributeError later) or accepts the unknown name silently",
        fn=gs,
        construct="required subcommand raises",
    )

    # ---------------- C06.e ---------------------------------------------------
    act = ctx.func("_typehints:adapt_class_type")
    g = ctx.cfg(act)
    parser_def = [s for s in walk_local(act) if isinstance(s, ast.Assign) and root_name(s.targets[0]) == "parser" and isinstance(s.targets[0], ast.Name)]
    ok = len(parser_def) == 1 and isinstance(parser_def[0].value, ast.Call) and call_leaf(parser_def[0].value) == "get_class_parser" and root_name(parser_def[0].value.args[0]) == "val_class"
    ctx.oblige("C06.e", ok, parser_def[0] if parser_def else act, "the parser used for init_args is the one built for the class named by class_path" if ok else "adapt_class_type's parser is not get_class_parser(val_class, ...)", fn=act)
    stores = [s for s in walk_local(act) if isinstance(s, ast.Assign) and isinstance(s.targets[0], ast.Subscript) and root_name(s.targets[0].value) == "value" and const_str(s.targets[0].slice) == "init_args"]
    ctx.need(len(stores) >= 3, "adapt_class_type: stores into value['init_args']")
    n_e = 0
    for s in stores:
        # value stored derives from parser.<parse_object|parse_args|instantiate_classes|dump>
        v = s.value
        okv = False
        how = ""
        if isinstance(v, ast.Call) and isinstance(v.func, ast.Attribute) and root_name(v.func) == "parser" and call_leaf(v) in ("parse_args", "parse_object"):
            okv, how = True, f"parser.{call_leaf(v)}"
        elif isinstance(v, ast.Call) and call_leaf(v) == "load_value" and any(call_leaf(c) == "dump" and root_name(c.func) == "parser" for c in calls_in(v)):
            okv, how = True, "load_value(parser.dump(...)) (serialising)"
        elif isinstance(v, ast.Name):
            defs = [d for d in walk_local(act) if isinstance(d, ast.Assign) and isinstance(d.targets[0], ast.Name) and d.targets[0].id == v.id]
            gd_ = g.cn(s)
            cand = []
            for d in defs:
                if g.can_reach(g.cn(d), gd_) and isinstance(d.value, ast.Call) and isinstance(d.value.func, ast.Attribute) and root_name(d.value.func) == "parser" and call_leaf(d.value) in ("parse_object", "instantiate_classes"):
                    cand.append(d)
            # the closest parser-derived definition must dominate the store w.r.t. the other definitions
            if cand:
                okv = g.must_pass(g.cn(cand), [g.entry], gd_)
                how = f"{v.id} = parser.{call_leaf(cand[0].value)}(...)"
        n_e += 1
        ctx.oblige("C06.e", okv, s, f"init_args stored come from {how}" if okv else "init_args are stored without passing through the class's own parser (unknown / ill-typed init_args would be accepted)", fn=act)
    ctx.floor("C06.e", n_e, 3)

    # a class spec given without class_path keeps ALL its keys when the class_path is filled in from the earlier
    # value: a foreign sibling of init_args (`initargs`, `init_arg`, ...) must reach the check that rejects it
    ssn = ctx.func("_typehints:subclass_spec_as_namespace")
    vparam = ssn.args.args[0].arg
    spec_ifs = [n_ for n_ in walk_local(ssn) if isinstance(n_, ast.If) and "init_args" in ast.unparse(n_.test) and "dict_kwargs" in ast.unparse(n_.test) and isinstance(n_.test, ast.BoolOp) and isinstance(n_.test.op, ast.Or)]
    ctx.need(len(spec_ifs) == 1, "subclass_spec_as_namespace: `if 'init_args' in val or 'dict_kwargs' in val`")
    rebinds = [s for b in spec_ifs[0].body for s in ast.walk(b) if isinstance(s, ast.Assign) and any(isinstance(t, ast.Name) and t.id == vparam for t in s.targets)]
    ok = True
    why = ""
    for s in rebinds:
        v = s.value
        whole = (isinstance(v, ast.Call) and call_leaf(v) in ("Namespace", "dict", "clone", "copy", "deepcopy") and ((v.args and isinstance(v.args[0], ast.Name) and v.args[0].id == vparam and not v.keywords) or (isinstance(v.func, ast.Attribute) and root_name(v.func) == vparam and not v.args))) or (
            isinstance(v, ast.Dict) and any(k is None and isinstance(x, ast.Name) and x.id == vparam for k, x in zip(v.keys, v.values))
        )
        if not whole:
            ok = False
            why = src(s, 70)
    stores = [s for b in spec_ifs[0].body for s in ast.walk(b) if isinstance(s, ast.Assign) and any(isinstance(t, ast.Subscript) and root_name(t.value) == vparam and const_str(t.slice) == "class_path" for t in s.targets)]
    ok = ok and (bool(stores) or bool(rebinds))
    ctx.oblige(
        "C06.a",
        ok,
        rebinds[0] if rebinds else (stores[0] if stores else spec_ifs[0]),
        "a spec that already has init_args / dict_kwargs gets the inherited class_path added and keeps every other key it was given" if ok else f"the spec is rebuilt from selected keys ({why}): a foreign key next to init_args (a misspelt `initargs`, an unknown option) is dropped silently instead of being rejected",
        fn=ssn,
        construct="spec keeps all keys",
    )

    # keys that validation never sees: get_sorted_keys drops metadata keys, decided by is_meta_key - which has to
    # test the LEAF COMPONENT of the key (a foreign key merely ending in "__path__" is not metadata)
    from .shared_rules import key_expr_role, key_helper_roles

    imk = ctx.func("_namespace:is_meta_key")
    kparam = imk.args.args[0].arg
    mems = [n_ for n_ in ast.walk(imk) if isinstance(n_, ast.Compare) and len(n_.ops) == 1 and isinstance(n_.ops[0], ast.In) and isinstance(n_.comparators[0], ast.Name) and n_.comparators[0].id == "meta_keys"]
    ok = len(mems) == 1
    role = None
    if ok:
        left = mems[0].left
        if isinstance(left, ast.Name):
            ds = [s for s in walk_local(imk) if isinstance(s, ast.Assign) and any(isinstance(t, ast.Name) and t.id == left.id for t in s.targets)]
            left = ds[0].value if len(ds) == 1 else left
        role = key_expr_role(key_helper_roles(ctx.repo), left)
        ok = role is not None and role[0] == "leaf" and role[1] == kparam
    others = [c for c in calls_in(imk) if call_leaf(c) in ("endswith", "startswith", "find", "count") or (isinstance(c.func, ast.Attribute) and c.func.attr in ("endswith",))]
    ok = ok and not others
    ctx.oblige(
        "C06.a",
        ok,
        mems[0] if mems else imk,
        "is_meta_key tests the leaf component of the key against meta_keys" if ok else "is_meta_key no longer tests exactly the leaf component: a foreign key whose text merely ends in a metadata name (`ckpt__path__`) is filtered out of the keys validation looks at and accepted silently",
        fn=imk,
        construct="meta key by leaf component",
    )

    # a parameter reached through several **kwargs uses stays REQUIRED unless the uses really disagree: the merged
    # parameter is unconditional when there is at most one type and at most one default (none = required everywhere)
    gpm = ctx.func("_parameter_resolvers:group_parameters")
    lens = [n_ for n_ in ast.walk(gpm) if isinstance(n_, ast.Compare) and isinstance(n_.left, ast.Call) and call_leaf(n_.left) == "len" and n_.left.args and isinstance(n_.left.args[0], ast.Name) and n_.left.args[0].id in ("types", "defaults") and isinstance(n_.comparators[0], ast.Constant) and n_.comparators[0].value == 1]
    # (the two tests inside the one condition that decides "unconditional")
    lens = [n_ for n_ in lens if isinstance(getattr(n_, "_jv_parent", None), ast.BoolOp) and sum(1 for v in getattr(n_, "_jv_parent").values if v in lens) >= 2]
    ctx.need(len(lens) >= 2, "group_parameters: len(types) <= 1 and len(defaults) <= 1")
    bad_l = [n_ for n_ in lens if not isinstance(n_.ops[0], ast.LtE)]
    ok = not bad_l
    ctx.oblige("C06.d", ok, bad_l[0] if bad_l else lens[0], "a merged **kwargs parameter is unconditional with at most one type and at most one default" if ok else f"`{ast.unparse(bad_l[0])}`: a parameter that has NO default in any of several **kwargs destinations (required everywhere) is no longer the unconditional case - it becomes a conditional default, so the required key is accepted when missing or null", fn=gpm, construct="required across kwargs uses")

    # ---------------- C06.f ---------------------------------------------------
    # dotted-key prefix tests of the two permitted skips: `a.startswith(b)` with a computed b decides "a is nested under b" only when b ends
    # with the separator; without it `model.lay` passes for `model.layers`, `optim` for `optimizer.lr`
    n_pref = 0
    for fq, fn in (("_actions:_is_branch_key", ctx.func("_actions:_is_branch_key")), ("_core:ArgumentParser.validate.check_values", cv)):
        for c in calls_in(fn):
            if call_leaf(c) != "startswith" or not isinstance(c.func, ast.Attribute) or len(c.args) != 1:
                continue
            a0 = c.args[0]
            if isinstance(a0, ast.Constant) or (isinstance(a0, ast.Tuple) and all(isinstance(e, ast.Constant) for e in a0.elts)):
                continue
            n_pref += 1
            ok = _ends_with_separator(fn, a0)
            ctx.oblige(
                "C06.f",
                ok,
                c,
                "the computed prefix ends with a separator: only whole key components match" if ok else "a key prefix test without the trailing separator: a truncated spelling of a defined key (e.g. `model.lay` for `model.layers`) is taken for one of its parents and escapes the unknown-key check",
                fn=fn,
            )
    ctx.floor("C06.f-prefix-tests", n_pref, 2)

    # ---------------- C06.g: the "nothing but spec keys" test looks at the keys of the value itself ---------------------------
    iss = ctx.func("_typehints:is_subclass_spec")
    vp6 = iss.args.args[0].arg
    gk = [c for c in calls_in(iss) if call_leaf(c) == "getattr" and len(c.args) == 3 and const_str(c.args[1]) == "__dict__"]
    for c in gk:
        ok = isinstance(c.args[0], ast.Name) and c.args[0].id == vp6 and isinstance(c.args[2], ast.Name) and c.args[2].id == vp6
        ctx.oblige("C06.g", ok, c, "for a plain dict the keys tested are the dict's own keys" if ok else f"`{ast.unparse(c)}` falls back to `{ast.unparse(c.args[2])}` for a value without __dict__: for a plain dict the 'only class_path / init_args / dict_kwargs / __path__' test is vacuous, {{'class_path': .., 'init_args': .., 'zz': 5}} counts as a class spec and the foreign key zz is silently dropped", fn=iss)
    ctx.floor("C06.g-spec-keys", len(gk), 1)

    return ctx.finish(
        explanation=(
            "Path and ownership checks: in validate.check_values every path for a key without action raises NSKeyError or takes one of the two documented skips "
            "(flag-sensitive on `action`); leftover argv reaches self.error; parse_known_args refuses external callers; `required=False` assignments are paired with required_args.add "
            "under the same condition; removals from required_args only in their two owners; check_required coverage; class init_args stored only from the per-class parser. "
            "Decides that the rejecting paths exist on every path and that 'required' is never lost, not coverage of every position of every configuration tree."
        ),
        rule_text="one obligation per rejecting path set / pairing / ownership site; non-trivial = anchored statements exist and the path set is non-empty",
    )


def _ends_with_separator(fn: ast.AST, e: ast.AST, depth: int = 0) -> bool:
    def sep(s) -> bool:
        return isinstance(s, ast.Constant) and isinstance(s.value, str) and s.value != "" and not (s.value[-1].isalnum() or s.value[-1] == "_")

    if isinstance(e, ast.BinOp) and isinstance(e.op, ast.Add):
        return sep(e.right)
    if isinstance(e, ast.JoinedStr):
        return bool(e.values) and sep(e.values[-1])
    if isinstance(e, ast.Tuple):
        return all(_ends_with_separator(fn, x, depth) for x in e.elts)
    if isinstance(e, ast.Name) and depth < 2:
        defs = [s for s in walk_local(fn) if isinstance(s, ast.Assign) and any(isinstance(t, ast.Name) and t.id == e.id for t in s.targets)]
        return len(defs) >= 1 and all(_ends_with_separator(fn, s.value, depth + 1) for s in defs)
    return False


def _anc(node):
    from .srcmodel import ancestors

    return list(ancestors(node))
