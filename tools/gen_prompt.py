#!/venv/bin/python
"""gen_prompt.py Cxx <round>  ->  prompt text for a fresh seeding sub-agent (stdout).

The agent gets: the property text (from properties.jsonl), the path of its own scratch worktree, the deliverable
format, and the list of places earlier volunteers already touched (hunk headers of the kept patches) - nothing
about /verif, its rules or its findings."""
import glob
import json
import re
import sys

prop, rnd = sys.argv[1], sys.argv[2]
wt = f"/tmp/wt{rnd}-{prop}"
P = next(json.loads(l) for l in open("/verif/properties.jsonl") if json.loads(l)["id"] == prop)
touched = {}
for pp in sorted(glob.glob("/verif/seeded/*/patch.diff")):
    cur = None
    for line in open(pp):
        m = re.match(r"\+\+\+ b/(\S+)", line)
        if m:
            cur = m.group(1)
        m = re.match(r"@@ [^@]+ @@ ?(.*)", line)
        if m and cur:
            touched.setdefault(cur, set()).add(m.group(1).strip()[:70] or "<module level>")
tl = "\n".join(f"  - {f}: " + "; ".join(sorted(v)) for f, v in sorted(touched.items()))
SUITE = f"cd {wt} && /venv/bin/python -m pytest -q -p no:cacheprovider -x --deselect jsonargparse_tests/test_shtab.py --deselect jsonargparse_tests/test_stubs_resolver.py --deselect jsonargparse_tests/test_core.py::test_debug_environment_variable --deselect jsonargparse_tests/test_util.py::test_path_fsspec_zipfile --deselect jsonargparse_tests/test_util.py::test_logger_jsonargparse_debug"
print(f"""You are helping to evaluate a verification effort for the Python library jsonargparse (builds argparse CLIs from type hints; parses/dumps configs from command line, YAML/JSON files and environment variables).

You have your OWN scratch git worktree of the library at: {wt}
Work ONLY inside that directory. Do NOT read or touch /repo, /verif or any other /tmp/wt* directory, and do not look at anything outside {wt} except the Python installation. The interpreter is /venv/bin/python; there is no network. IMPORTANT: a different copy of the library is installed in that interpreter, so every script you run must put the worktree first on sys.path (e.g. `sys.path.insert(0, "{wt}")` before importing jsonargparse, and assert that `jsonargparse.__file__` starts with "{wt}").

Below is a semantic PROPERTY the library is supposed to satisfy. Your job is to act as a careless-or-unlucky maintainer: produce THREE different, realistic source changes to the library (each a small edit of the kind that could plausibly slip through code review - a refactoring slip, a wrong argument order, a dropped copy/guard/reset, a narrowed except clause, an off-by-one in a table or regex, a moved statement, a wrong helper ...) such that EACH change, on its own:
  1. BREAKS THE PROPERTY for some input / sequence of operations,
  2. still imports and "compiles", and
  3. still passes the library's existing test suite:  {SUITE}
     (those deselected tests already fail on the unmodified tree for unrelated reasons; everything else - about 1180 tests, ~20 s - must pass with your change).
Prefer changes that need something SPECIFIC to manifest - an unusual input, a multi-step sequence of operations on the same parser, a failure at a particular point, three sources interacting, two cooperating sites that each look fine alone - rather than changes that ordinary use would expose at once. The three changes should be of three different KINDS (e.g. one wrong operator/constant/regex/table entry, one moved or re-ordered statement, one wrong variable / argument / helper function) and touch different code sites. Each change must be minimal (a few lines) and edit only files under {wt}/jsonargparse/ (not the tests).

For EACH change (A, B, C) deliver under {wt}/SEED/A/, {wt}/SEED/B/, {wt}/SEED/C/:
  - patch.diff : output of `git diff` for that change alone (relative to the unmodified worktree HEAD), applicable with `git apply`
  - demo.py    : a small standalone program (run as `cd {wt} && /venv/bin/python SEED/A/demo.py`) that exits with status 0 and prints PASS on the UNMODIFIED tree, and exits non-zero and prints FAIL with the change applied. It must demonstrate a violation of the property statement itself, using only the library's public API.
  - notes.md   : 5-10 lines: what the change is, why it breaks the property, what specific input/sequence is needed to see it, and what you ran (suite result with the change, demo result with and without it).
Procedure: make change A, run the suite, write and run the demo, `git diff > SEED/A/patch.diff`, then `git checkout -- jsonargparse` to restore and verify the demo passes on the clean tree; repeat for B and C. Leave the worktree CLEAN at the end (only the untracked SEED/ directory). Do NOT use `git stash` (it is shared between worktrees). If after a serious effort you can only find one or two changes that meet all conditions, deliver those and say so.

SECOND TASK (equally valuable): while you explore, note every input or sequence of calls for which the UNMODIFIED library ALREADY violates the property (you will run into some while making your demos pass on the clean tree). For each, give the exact reproducer (a few lines of Python using the public API) and what happens. List them at the end of your answer under "Violations on the unmodified tree". Spend a real part of your effort on this: try unusual but legal inputs in the spirit of the property's quantifier.

NOTE: many volunteers before you already delivered about 230 changes. The places they touched are listed below by file (text after the file name = enclosing function or class as shown in their diff hunk headers; a class name means that SOME methods of that class were touched, others are still open). Choose DIFFERENT functions where you can - small helpers, tables, regular expressions, property setters, context managers, loaders/dumpers, formatters, deprecated-but-public code, optional-dependency code (jsonnet, jsonschema, omegaconf, toml, fsspec, pydantic/attrs/dataclass support), signature/parameter resolution, stubs, postponed annotations, completions - as long as breaking them breaks THIS property:
{tl}

Your final answer: for A, B and C one line each (change, file/function), then the list of violations on the unmodified tree.

PROPERTY {P['id']}: {P['title']}

Statement: {P['statement']}

Quantified over: {P['quantifier']['text']}

Why the existing tests cannot settle it: {P['why_tests_cant']}
""")
