#!/venv/bin/python
"""seed_recheck.py [seed_id ...] : re-run every claimed check (quick) on every kept seeded change, on a scratch
copy of the current /repo package with the seed's patch applied, and refresh `checks_that_report_it` / `caught`
in its meta.json.  Prints the seeds no check reports."""
import json, os, shutil, subprocess, sys, tempfile
from concurrent.futures import ThreadPoolExecutor

PROPS = sorted(c["property_id"] for c in json.load(open("/verif/MANIFEST.json"))["checks"])

def one(sid):
    d = tempfile.mkdtemp(prefix="jvseed-", dir="/var/tmp")
    try:
        shutil.copytree("/repo/jsonargparse", os.path.join(d, "jsonargparse"))
        r = subprocess.run(["patch", "-p1", "-s", "-f", "-d", d, "-i", f"/verif/seeded/{sid}/patch.diff"], capture_output=True, text=True)
        if r.returncode:
            return sid, None
        fired = {}
        for prop in PROPS:
            env = dict(os.environ, JV_REPO=d, JV_EVIDENCE_DIR=os.path.join(d, "ev"))
            r = subprocess.run(["/venv/bin/python", "-m", "jv.check", prop], cwd="/verif", env=env, capture_output=True, text=True)
            if r.returncode != 0:
                rl = [l for l in r.stdout.splitlines() if ": rule " in l]
                rules = sorted({l.split(": rule ")[1].split(":")[0] for l in rl})
                first = rl[0].replace(d, "<scratch>") if rl else (r.stdout.strip().splitlines() or [""])[-1]
                fired[prop] = {"rc": r.returncode, "rules": rules, "first": first[:400]}
        return sid, fired
    finally:
        shutil.rmtree(d, ignore_errors=True)

def main():
    sids = sys.argv[1:] or sorted(s for s in os.listdir("/verif/seeded") if os.path.exists(f"/verif/seeded/{s}/patch.diff"))
    missed = []
    with ThreadPoolExecutor(max_workers=14) as ex:
        for sid, fired in ex.map(one, sids):
            mp = f"/verif/seeded/{sid}/meta.json"
            meta = json.load(open(mp))
            if meta.get("obsolete"):
                print(f"{sid}: obsolete ({meta['obsolete'].get('why', '')[:80]})")
                continue
            if fired is None:
                print(f"{sid}: patch no longer applies to the current tree (kept as recorded)")
                continue
            meta["checks_that_report_it"] = fired
            meta["caught"] = any(v["rc"] == 1 for v in fired.values())
            json.dump(meta, open(mp, "w"), indent=1)
            own = meta.get("breaks_property")
            tag = "own" if fired.get(own, {}).get("rc") == 1 else ("other" if meta["caught"] else "MISSED")
            print(f"{sid}: {tag} " + " ".join(f"{p}:{v['rc']}:{','.join(v['rules'])}" for p, v in fired.items()))
            if not meta["caught"]:
                missed.append(sid)
    print("missed:", missed)
main()
