#!/venv/bin/python
"""Regenerates /verif/MANIFEST.json from the table below (single source of truth)."""
import json
import os

HERE = os.path.dirname(os.path.dirname(os.path.abspath(__file__)))

# id -> (technique, level text, level note, design ref)
CLAIMED = {
    "C18": (
        "CFG ordering / dominance analysis of ArgumentParser.save (static, ast)",
        "Decides the ordering clause of the property on every path of save() and its closures: nothing that can fail because of the configuration (validate, dump, serialisation, reading content) runs while or after any file is opened for writing, and check_overwrite(P) dominates every open-for-write of P. This is the failure mode the property quotes (truncate-then-raise). Not decided: I/O errors during the writes, and re-parse equality of a successful save.",
        "Trusted: open()/fsspec.open() with a constant write mode are the only file-creating calls in save; the list of configuration-dependent fallible callees is frozen in rules_C18.py. Exception edges are over-approximate.",
        "DESIGN.md section 3 / C18",
    ),
}

CLAIMED.update({
    "C03": (
        "error-discipline lint over try/except structure, CFG no-fall-through of error(), sibling cross-check of _check_type, loader-exception coverage (static, ast)",
        "Decides the library's own conversion discipline: every parse entry wraps its package calls in except (TypeError, KeyError) -> self.error; argparse.ArgumentError is converted; error() has no normal exit and ends in ArgumentError or usage+error on stderr and exit(2); each _check_type sibling converts what its body can raise; every loader mode has anticipated exceptions and every load call site sits under a handler for them. Not decided: implicit exceptions (AttributeError, RecursionError, ...) on unanticipated values - no sound static argument without types.",
        "Trusted: handlers are matched by written exception names (no type inference); callee resolution by name with receiver heuristics; PRELUDE calls are deliberately outside the conversion. Known finding F11 (parse_path).",
        "DESIGN.md section 3 / C03",
    ),
    "C04": (
        "provenance-rank forward dataflow over merge_config call sites + dominance checks of phase order (static, ast CFG)",
        "Decides that every merge site merges a later source into an earlier one (DEFAULTS < ENV < GIVEN < NEW), that merge_config updates the `to` clone with the `from` clone, and the phase order in _load_env_vars / merge_config / parse_args / get_defaults. This is exactly the 'swapped merge argument' fault the property names. Not decided: the final value of every key for every source combination.",
        "Trusted: producer table (callee -> rank) and per-function GIVEN table in rules_C04.py; an unrankable merge site is an ANALYSIS-ERROR, not a pass; Namespace.update semantics.",
        "DESIGN.md section 3 / C04",
    ),
    "C06": (
        "flag-sensitive path analysis of validate.check_values, pairing / who-may-call checks on required_args (static, ast CFG)",
        "Decides that the rejecting paths exist on every path: a key without action ends in NSKeyError or one of two documented skips; leftover argv reaches self.error; parse_known_args refuses external callers; `required` is moved to required_args under the same condition it is cleared; required keys are removed only by their two owners; check_required coverage; class init_args are stored only from the per-class parser. Not decided: coverage of every position of every configuration tree.",
        "Trusted: lexical guard chains stand for control dependence; `action` is not reassigned in the check_values loop (verified each run).",
        "DESIGN.md section 3 / C06",
    ),
    "C15": (
        "dominance / must-pass-through queries on CFGs of the link machinery, dump and save (static, ast CFG)",
        "Decides necessary ordering and sealing conditions: links applied before validation and after subcommand handling; ActionLink.__call__ can only raise; option strings of a replaced target re-pointed and target dropped from required; link targets stripped before every serialisation path (dump, skip_default defaults, multi-file save, print_config); set_target_value stores on every non-ignored path. Not decided: target == f(sources) over all inputs.",
        "Trusted: argparse dispatches through parser._option_string_actions; exception edges over-approximate.",
        "DESIGN.md section 3 / C15",
    ),
    "C16": (
        "dominance and guard-structure (typestate) checks of the link ordering code (static, ast CFG)",
        "Narrow: decides that the cycle check sees the new link and its error propagates, that instantiate_classes iterates the reordered components and applies incoming links before building each, the DFS bookkeeping typestate of topological_sort (mark before loop, guarded recursion, raise iff exploring, post-order prepend), and applied-link bookkeeping. NOT decided: that the hand-written DFS is correct for every digraph (needs execution or proof).",
        "Trusted: none beyond Python list/dict semantics; the evidence states explicitly that the exhaustive graph claim is not decided.",
        "DESIGN.md section 3 / C16",
    ),
})

CLAIMED.update({
    "C02": (
        "finite-automaton abstraction of the Union member-trial loop + selection expression; dominance (validate before every parse return); mutation summary of adapt_typehints(val) (static, ast)",
        "Decides the two mechanisms that make acceptance order-dependent: (a) the selection after the Union loop never denotes a failed member's exception when some member accepted (all words of the loop language up to length 4 over {V,O,E}); (b) a member trial cannot modify the candidate; and (c) every configuration returned by a parse method passed validate. Not decided: conformance of every accepted value to every type hint.",
        "Trusted: the loop language is read from the CFG of the loop body (one append per iteration); selection forms understood: vals[-1], vals[0], next(v for v in [reversed](vals) if not isinstance(v, Exception)), list-comp forms; others are ANALYSIS-ERROR.",
        "DESIGN.md section 3 / C02",
    ),
    "C12": (
        "guard-symmetry (control-dependence atoms) between key introduction and removal in auto_cli; exhaustive simple-path enumeration of _run_component / auto_cli (static, ast CFG)",
        "Decides what happens to the parsed namespace between parse_args and the call: keys popped are exactly those auto_cli introduced (under the same component predicates), exactly one component call (at most one constructor call) per path, the callee's value is returned, and the namespace passed is instantiate_classes(parse_args(args)). Not decided: the signature-to-argument derivation (_add_signature_parameter).",
        "Trusted: argparse raises on conflicting option strings (so an unconditional --config fails loudly for a same-named parameter); the pairing table removal<->introduction in rules_C12.py.",
        "DESIGN.md section 3 / C12",
    ),
    "C14": (
        "dominance / guard / identity checks of the Subclass, Callable and Type arms of adapt_typehints and of adapt_class_type; path enumeration of the instantiating branch (static, ast CFG)",
        "Decides order and identity obligations of the parser-per-class construction: the subclass test against the declared type dominates acceptance (incl. the not_subclass flag protocol), class_path is normalised from the checked class, parser and instantiation use the same class, nested objects are built first, every instantiating path constructs exactly once, init_args pass the class's own parser. Not decided: that every accepted spec instantiates without TypeError for all class families; short forms.",
        "Trusted: NoReturn helpers are recognised by their own CFG (no normal exit).",
        "DESIGN.md section 3 / C14",
    ),
    "C19": (
        "exception-discipline and sibling cross-check of Path.__init__ flag predicates; lexical scoping check of config consumers under change_to_path_dir; restore-on-all-paths for os.chdir (static, ast CFG)",
        "Decides internal consistency of the mode language (every os.stat under a positive existence test; raises are PathError; r/R w/W x/X d/D f/F predicates are exact negations; every alphabet letter tested; contradictory modes rejected) and the scoping of directory changes (every consumer of a loaded config runs inside change_to_path_dir of that path; os.chdir owned by two functions and restored in finally on every path). Not decided: agreement with the file system for all paths.",
        "Trusted: os.access/os.path.isfile/isdir do not raise for missing paths, os.stat does; ContextVar.reset(token) does not raise.",
        "DESIGN.md section 3 / C19",
    ),
})

CLAIMED.update({
    "C01": (
        "regular-language inclusion on PyYAML implicit-resolver tables read from source (regex -> DFA, first-character dispatch); three-valued polarity analysis of conversion sites; table-vs-signature check (static)",
        "Decides exactly (a proof of that clause) the agreement the property names: every string the customised loader resolves as non-string is quoted by the dumper; representer / json.dumps number spellings resolve back to the same tag; everything the loader resolves to float is convertible by PyYAML's float constructor. Also decides the serialize-polarity of every conversion in adapt_typehints/adapt_class_type and the print_config flag table. Not decided: value equality for all parsers and inputs, the load_basic fast path, skip_default logic.",
        "Trusted: PyYAML writes a str plain only if its resolver resolves the text to str, and reads a plain scalar through the loader's resolver (facts of yaml/serializer.py, emitter.py); representer/constructor spellings re-checked against the installed source on every run; alphabet = ASCII + one class for all non-ASCII characters; `$` modelled as end of input.",
        "DESIGN.md section 3 / C01",
    ),
    "C20": (
        "dominance (validate before cast), table checks, sibling cross-check over every register_type call, regular-language inclusion serializer-output <= deserializer-input, class-local taint for SecretStr (static)",
        "Decides order (validation dominates the cast, bool / non-integral float rejected first), operator and and/or tables, and for each registry entry: no lossy numeric serializer, paired custom functions, serializer language included in deserializer language (range, timedelta; exact on DFAs), declared deserializer exceptions covering the modelled raises; SecretStr's value never reaches __str__/__repr__. Not decided: acceptance <=> predicate and round trip for every value.",
        "Trusted: CTOR_RAISES table of stdlib constructor exceptions; str(timedelta) format; str()/T(str) pairs of the stdlib are lossless. Known finding F13 (Decimal through float).",
        "DESIGN.md section 3 / C20",
    ),
})

CLAIMED.update({
    "C05": (
        "reaching-definition / dominance check that every value store derives from the shared checker; taint analysis of raw __dict__ keys to action lookups (static, ast)",
        "Narrow: decides that the input channels funnel into one checker (every store of an action's value in _load_env_vars, _apply_actions, _positional_optionals and every Action.__call__ derives from _check_value_key / the action's _check_type; ActionYesNo's type= hook is its _check_type function) and that raw, possibly clash-marked keys read from a namespace's __dict__ never reach _find_action* without del_clash_mark. Not decided: equality of results across channels for all values; loader equivalence across parser modes.",
        "Trusted: argparse applies the registered type= callable to command-line values; name-based recognition of checker calls.",
        "DESIGN.md section 3 / C05",
    ),
    "C08": (
        "interprocedural alias / mutation summaries over the call graph (effect analysis) with copy semantics of clone/recreate_branches/list()/dict()/deepcopy; CFG restore-on-all-paths for cwd and argparse.Namespace; who-may-write checks (static, ast)",
        "Decides, for every path of the code below the public API, whether a call writes to an object it did not create: parse_args(args, namespace), parse_object(cfg_obj, cfg_base), parse_env(env), validate, dump, save, merge_config, strip_unknown, instantiate_classes and the value adapters have no TOP/INTERIOR write to their arguments; the copy primitives really copy Namespace/dict/list; cwd and argparse.Namespace are restored on every normal and exceptional path; os.chdir / os.environ / argparse attributes / action.default have named owners. Possible writes below tuples (where clone() stops) and through ** splats of unknown keys are listed as observations. Not decided: instance freshness of instantiate_classes.",
        "Trusted: external callees mutate only through the mutating-method vocabulary; closures analysed with their own parameters only; name-based call resolution (counts in evidence); isinstance refinement of container kinds.",
        "DESIGN.md section 3 / C08",
    ),
    "C09": (
        "ContextVar set/reset discipline via CFG must-pass queries incl. exception edges; lexical with-gates for write-before-read; request-flag typestate; effect summaries for shared mutable objects and terminal actions (static, ast)",
        "Decides the anchored carriers of state between calls: all 18 ContextVar.set sites are scoped (reset in a finally covering the yield), extent-nested, or written before every read; the print_config request is deleted before exit and discarded on every reported error; shared mutable objects (mutable ContextVar defaults, mutable default parameters, class-level mutable attributes, the action's sub_add_kwargs) are never written in place while parsing; terminal actions leave parser, action and namespace untouched; parser.args written before read; fresh class parser per adaptation. Not decided: equality with a fresh parser over all operation histories.",
        "Trusted: argparse dispatches to Action.__call__ / _parse_optional only from inside _parse_known_args; idempotent caches (_check_type_kwargs, lazily added shtab action) are deliberately not flagged.",
        "DESIGN.md section 3 / C09",
    ),
    "C10": (
        "control-dependence check of every deserialising conversion site (guarded by a not-yet-converted test, or arm accepts its own output); dominance of validate over parse returns (static, ast)",
        "Narrow: decides that the early-outs for already adapted values exist on every deserialising conversion of adapt_typehints / adapt_class_type, and that every parse result was validated and parse_object re-applies the checker. Not decided: idempotence of normalisation for all values (paths, defaults filled in on second parse, byte-identical dumps).",
        "Trusted: validate_annotated returns a base-type value; conversion sites are found by callee name.",
        "DESIGN.md section 3 / C10",
    ),
    "C11": (
        "flow-sensitive key-kind analysis (clash-mark symmetry) of _namespace.py; belief-contradiction check between _parse_key and the accessors consuming its result (static, ast)",
        "Decides two internal-consistency obligations every operation history depends on: keys are marked on the way into __dict__, looked up marked and un-marked on every way out, the mark being idempotent by construction; and every accessor that consumes _parse_key's result narrows or tolerates each kind of parent (Namespace / dict / None) it can receive. Not decided: agreement with a dictionary model over all operation histories.",
        "Known finding F10 (keys below a dict parent: __setitem__ can set what __getitem__ cannot find).",
        "DESIGN.md section 3 / C11",
    ),
})

NOT_APPLICABLE = {}

PENDING = "check not built yet in this session (planned in DESIGN.md section 3); listed here until its rules exist so that nothing is claimed without a deciding check"

ALL = [f"C{n:02d}" for n in range(1, 21)]


CLAIMED.update({
    "C17": (
        "guard-structure, dominance and key-derivation checks over the three functions that implement subcommand selection (static, ast CFG); variables identified by role",
        "Narrow: decides six structural necessary conditions of the selection rule as written in get_subcommands / handle_subcommands / _ActionSubCommands.__call__: the chosen name is stored; the explicit key wins and the fallback (first declared subcommand with a section) is on its else-side; every other candidate's section is deleted unconditionally through the level's prefix; the descent into nested levels is unconditional for sub-parsers with subcommands and extends the prefix; the section is completed with the chosen sub-parser's environment/defaults with given values winning; an undeterminable required subcommand or an unknown name raises. Not decided: the resulting namespace for all subcommand trees and input mixes, default config files, the environment branch of _load_env_vars.",
        "Trusted: argparse passes (name, rest) as values[0], values[1:]; merge_config(cfg_from, cfg_to) lets cfg_from win (decided under C04). First listed as not applicable; revised after seeded changes showed that the clauses are visible in the code's shape (DESIGN.md section 3 / C17).",
        "DESIGN.md section 3 / C17",
    ),
})

CLAIMED.update({
    "C07": (
        "syntax-directed rules with one level of callee inlining (the loop arm that delegates to ActionYesNo._add_dest_prefix is read with its parameter bound to what is passed) and CFG reachability / must-pass queries over the functions that reduce the declaration styles to flat dotted actions (static, ast)",
        "Narrow: the four declaration styles are not four implementations - dataclass-typed arguments, class arguments under a key and inner parsers are REDUCED to flat actions with dest <key>.<name>, option --<key>.<name>, plus one whole-group loader action under <key>. Decides that every reduction step produces that common representation: add_argument moves an inner parser / delegates a dataclass-like type to add_class_arguments under the key named by the option (with the remaining keyword arguments) before the generic type-hint arm, and leaves afterwards; _add_signature_parameter forms dest = key + '.' + name and option '--' + dest; _move_parser_actions prefixes EVERY action of the inner parser (no filter but the default helper actions, no early exit) - dest with the dest form of the key (dashes replaced), option strings with the raw key, through every arm of the loop including the helper of the yes/no action -, re-keys the option-string table with the same function, prefixes group dests, and extends the outer parser's four tables on every normal path; both group-producing styles add an _ActionConfigLoad under exactly the key; filter_default_actions applies one class test to lists and mappings. Not decided: equality of parse results, accept/reject decisions and dumps over all inputs; help output; positional arguments.",
        "First listed as not applicable ('relational equality of four modules'); revised after reading the mechanisms: the equality is obtained by reduction to one representation, and the reduction steps are shape-visible. Found F55 (yes/no action of a moved parser under a key with a dash), fixed 2f2aff3 (DESIGN.md section 8.7).",
        "DESIGN.md section 8.7 / C07",
    ),
    "C13": (
        "syntax-directed rules and CFG must-pass-through queries over the library's own parameter resolver (jsonargparse/_parameter_resolvers.py; static, ast); constructs identified by role (callee names, kinds, slice bounds), not by position or local names",
        "Narrow: decides structural necessary conditions of the property inside the resolver - hard-coded arguments of a forwarding call are removed on every path (by position, without starred arguments, and by keyword, without the ** entry) and names removed by keyword are filtered after grouping; only POSITIONAL_ONLY parameters replace *args and only KEYWORD_ONLY / POSITIONAL_OR_KEYWORD ones replace **kwargs; the var slot is cut out exactly ([:i] + new + [i + 1:]), only when it exists, with the kwargs index moved by len(args) - 1; names already present are not offered twice; name / annotation / default / kind of a resolved parameter come from one inspect.Parameter, self is dropped only for methods and before the slot indexes are taken; kwargs.pop/get recognition (receiver, method set, constant name, default, kind); MRO index arithmetic of super() handling (search from idx, record idx + offset, continue at idx + 1 with the absolute counter, record before recursing, skip inherited methods); the resolver chain falls through on any exception, stops at the first non-None answer, source before stubs before assumptions; polarity of constant-folded if tests; complementarity of the conditional-parameter tests. Not decided: that the recognised AST patterns cover every way a user program forwards **kwargs (the property's quantifier over programs), the stub / pydantic / attrs resolvers, postponed annotations, the consumer side in _signatures.py.",
        "First listed as not applicable; revised: the resolver is itself a syntax-directed analysis whose bookkeeping (index arithmetic, filters, fall-through order) is visible in its shape, and each clause is a necessary condition whose violation changes the offered parameter set for some program (DESIGN.md section 3 / C13, revised in section 8.7).",
        "DESIGN.md section 8.7 / C13",
    ),
})

# clauses added after the seeding rounds: id -> (technique addition, level-text addition)
ADDED = {
    "C03": (
        "; path-precise exception-flow search over the call graph for two families with intrinsic origins (import of user paths, decoding of user files); model of PyYAML's SafeConstructor raises read from the installed source",
        " Also decided: the state that selects the channel (exit_on_error, error handler) is inherited by subcommand parsers; ValueError raised by PyYAML constructors for explicitly tagged scalars is converted; ImportError/AttributeError from importing a user-supplied path and UnicodeDecodeError from reading a user-supplied file cannot reach a parse entry without passing a handler (witness chains reported).",
    ),
    "C04": ("; call-graph resolved argument/parameter agreement for the source-selection flags", " Also decided: the flags `env` and `defaults` are never bound to each other's parameter in any resolved call."),
    "C05": (
        "; regular-language inclusion JSON numbers <= yaml float/int resolver; normalisation agreement between acceptance and interpretation",
        " Also decided: every JSON number is a number for the yaml loader; a text accepted under a normalisation (x.lower() in {...}) is interpreted under the same normalisation.",
    ),
    "C06": (
        "; key-prefix separator check; guard-structure checks on required_args registration and on the value-check exemptions of validate",
        " Also decided: the two permitted skips test key prefixes with the separator; every required_args.add depends on the `required` flag alone; a known key's value check is skipped only for None/lenient and its failure swallowed only for {} on an optional subclass key; a subcommand name outside the choices raises.",
    ),
    "C09": ("; alias copy-on-write (must-pass-through a fresh rebinding before in-place writes of locals that alias attributes of long-lived objects)", " Also decided: a local aliasing an attribute of the parser/action is rebound to a copy before it is written in place."),
    "C10": ("; pop/restore pairing of the __path__ metadata on the CFG of both _check_type siblings", " Also decided: metadata popped before conversion is put back on every normal path on which it was present."),
    "C12": ("; prefix-derivation check of every configuration key used by subcommand selection", " Also decided: whose signature has_parameter asks (component vs. method) agrees between introduction and removal; get_subcommands/handle_subcommands address every key through `prefix`; signature defaults are never tested by truthiness."),
    "C14": ("; context-pinning check of the validity test in discard_init_args_on_class_path_change", " Also decided: init_args kept across a class_path change are checked with lenient_check pinned to False, and are discarded when unknown to or rejected by the new class."),
    "C16": ("; key-helper roles (root/parent/leaf) read from the split_key* helpers", " Also decided: a link source key is matched to the class group named by the key or its immediate parent."),
    "C18": ("; hidden-write summary of Path.__init__ (mode flags that open the target for writing)", " Also decided: no Path construction inside save enables Path.__init__'s own open-for-write probe (C18.c)."),
    "C19": ("; resolved-path derivation for every file-system probe", " Also decided: every os.access/isfile/isdir/stat probe of the mode checks looks at the value stored as self._absolute (or a parent derived from it)."),
    "C20": ("", " Range templates may omit start/step only under control dependence on start == 0 / step == 1."),
}


# clauses added in seeding rounds 3 and 4 (appended to the level text)
ADDED2 = {
    "C01": " Also decided: every serialising adaptation of ActionTypeHint.serialize runs inside dump_kwargs_context; dict_kwargs popped by adapt_class_type is restored on the serialising branch; the registered serializer only sees values of the registered class; the yaml classes are the Safe* ones; header comments are chosen by format name and never written for JSON; the JSON fallback looks at stripped text.",
    "C02": " Also decided: the equals-default shortcut is reachable on the parsing path only for text; every root type accepted at declaration is tested for by an arm of adapt_typehints (exhaustiveness over the origin tables evaluated from source).",
    "C04": " Also decided: only merge_config folds two namespaces with a bare update; an append tries list-typed Union members first (origin tables); parse_object applies the object after cfg_base was merged; apply_appends uses the flattened key view.",
    "C05": " Also decided: list-valued options are decided as argparse does (integer clause folded over {0,1,2,3}); leaf-arm steps after the load are not conditioned on the value having been text; the omegaconf scalar short-cut covers every yaml scalar type.",
    "C06": " Also decided: a spec that gets an inherited class_path keeps all its keys; is_meta_key tests the leaf component; keys of a moved parser (required keys, dests) use the dest form of the option name.",
    "C09": " Also decided (E5): no entry point writes the declared default of an action or anything inside it.",
    "C10": " Also decided: text whose loaded form is text stays as written; both normalisation passes of parse_object are unconditional; metadata is never popped without being remembered.",
    "C11": " Also decided: clash_names is the whole of dir(Namespace); the leaf test of _parse_required_key is total; as_dict converts containers element for element.",
    "C12": " Also decided: classmethods are recognised through the MRO.",
    "C14": " Also decided: listing filters never prune the subclass walk; private init parameters are skipped only when optional.",
    "C15": " Also decided: is_mapping_typehint tests the type's origin; link targets below a mapping entry are narrowed by the entry key only.",
    "C16": " Also decided: nested links are re-declared on the per-class parser unconditionally.",
    "C17": " Also decided: the names handed back are exactly the chosen one; mode parameters reach nested levels unchanged; parser-wide settings are pushed down through the property; intermediate folds (default config files, --cfg items) do not pick a subcommand.",
    "C19": " Also decided: path type check is jsonargparse's Path; the config path is returned as read; the original text of a value is not re-interpreted inside the directory of the file it names; configurations read from files are merged inside the file's directory.",
    "C20": " Also decided: a deserializer annotated with a return class returns the registered class; RegisteredType.deserializer re-raises as ValueError.",
}


ADDED3 = {
    "C01": " Round 6: the ruyaml re-writer of the comments dump keeps quotes; every dump_using_format call of the parser class is preceded by the serialisation step on every path (except non-namespace values); skip_default removes an entry only when the whole value equals the default, recurses only below non-leaf keys and with the class's own parser inside init_args; steps applied to the defaults do not insist on a chosen subcommand; named yaml classes exist.",
    "C02": " Round 6: typing_extensions' object is used whenever available; a hint rebuilt after forward-reference resolution keeps every argument.",
    "C03": " Round 6: evaluators of annotation/source text (get_type_hints, exec) run under a catch-all or in a reviewed propagator (R8); the dict check follows the last assignment before a loaded config is applied, sub-command settings and the config-file key are stored only with the shape their consumers dereference (R9); environment switches are compared case-insensitively (R10); NUL is rejected before the os probes of Path and the jsonnet binding's ValueError is converted (R11).",
    "C04": " Round 6: os.environ stands in only when no environment mapping was given (identity test).",
    "C05": " Round 6: the clash-mark sanitiser is applied to key components, not to concatenations; appends are adapted under the parser's load mode.",
    "C09": " Round 6: a pending print_config request is discarded on every exit from the argument loop and cannot be served by a nested parse on the handed-in parser; the resolver lists shared with PyYAML's classes are replaced, never edited in place.",
    "C10": " Round 6: a module variable is named for an object only by identity.",
    "C11": " Round 6: as_dict passes every value through one recursive converter with type-only arm conditions and unfiltered, fully mapped comprehensions; update carries empty branches over; __contains__ never raises.",
    "C12": " Round 6: the list of added arguments is never extended by iterating over itself; has_subtypes covers all container tables.",
    "C14": " Round 6: the inherited-__new__ test keeps its quantifier; default instances are converted before the kwargs expansion; the public instantiate_classes converts a dict argument.",
    "C15": " Round 6: init_args are copied structurally, never deep-copied, between link application and construction (linked objects keep their identity).",
    "C17": " Round 6: a subcommand chosen in an environment mapping reads its settings from that mapping.",
    "C18": " Round 6: the overwrite probe looks at the resolved path.",
    "C19": " Round 6: file:// normalisation is unconditional; Path.open / get_content use the resolved path; resolve_relative_path pops unconditionally; a file's content is loaded inside its directory.",
    "C20": " Round 6: a custom serializer hands out a narrowed number only under a read-back equality with its deserializer, which reads floats through their text; the ActionOperators registry key agrees with the creation.",
}

ADDED4 = {
    "C01": " Round 8: the skip_default recursion hands down the accumulated dotted prefix and looks actions up under it; the splatted print_config flags may be read through a local alias.",
    "C02": " Round 8: sub-types are asked for full support in the recursion of is_supported_typehint; TypedDict classes of both providers are mappings.",
    "C03": " Round 8: a json decoder used outside json mode absorbs its own failure (R5); a constant index lies within the length its guard guarantees (R13).",
    "C04": " Round 8: the tri-state env is resolved (None + default_env -> True) before it reaches the subcommand level.",
    "C05": " Round 8: the default's class is the base of an init_args-only value under the right polarity of the sub_defaults flag (C05.j).",
    "C06": " Round 8: a subcommand name that was given is checked against the choices whether or not a decision is asked for (F59).",
    "C07": " Round 8: the whole-group loader is registered before the group's field actions in every style (C07.d); skip_default treats a key as a group for every style - no action, subcommand or whole-group loader (C07.f).",
    "C09": " Round 8: the argument loop discards a pending request on ANY exception, unconditionally, and the request is detached from the parser before it is served (F60).",
    "C10": " Round 8: a parameter merged into parse_object's running configuration passes the per-key checker before _parse_common.",
    "C12": " Round 8: both spellings of an unevaluated annotation (str, ForwardRef) are evaluated (C12.g); facts derived from a parameter's annotation are computed after its last rewrite (C12.h).",
    "C13": " Also: names and default expressions are aligned as Python aligns them, keyword-only parameters included (F56); a call through the class that passes the instance explicitly shifts the given positions (F58); the instance parameter's name is found when it is positional-only (F62).",
    "C15": " Round 8: the creation check's conflict tables hold every target and every source of every parse-time link, and every new source is looked up (C15.g).",
    "C16": " Round 8: a class argument's parser receives only the nested links whose target is that argument; every proper prefix of a target key is tried as a parent target.",
    "C17": " Round 8: the completed section is stored before inner levels are handled; provisional parses of a sub-parser skip validation; a subcommand name found in the environment is stored on every path (C17.i, F61).",
    "C18": " Round 8: the reference stored in the main file of a multi-file save is derived from the path the sub-file is written to (C18.e).",
    "C19": " Round 8: the walk to the nearest existing ancestor is a loop (a single step is a violation); the 'already a path of this type' test is the library's Path or the registered class.",
    "C20": " Round 8: the deserializer of an exact type returns what the constructor gives (no context-rounded arithmetic); a custom type_check decides membership in the class it is given (C20.c.iv, F57).",
}

ADDED5 = {
    "C01": " Rounds 9-12: the JSON escape written after json.dumps has four zero-padded hex digits; sub-files of a multi-file save are serialised with the caller's skip_none; class paths are compared by equality in the skip_default reduction.",
    "C02": " Rounds 9-12: no positional Union member access under an order-insensitive Optional test (F63); the TypedDict metaclass table starts from the imported metaclass.",
    "C03": " Rounds 9-12: set_loader overwrites a mode's loader and exceptions together; help text is expanded with safe_substitute.",
    "C04": " Rounds 9-12: every parse entry folds defaults / environment in when either is on; an unreadable default config file is skipped on its own (F64); sorted() only directly around one glob call.",
    "C05": " Rounds 9-12: nargs None, '?' and 0 are the single-value cases of the shared checker.",
    "C06": " Rounds 9-12: the spec-key test of is_subclass_spec reads the keys of the value itself; a set-difference on required_args is a reported removal.",
    "C07": " Rounds 9-12: the attrs arm of dataclass_to_dict recurses like its siblings.",
    "C08": " Rounds 9-12: the copy of a declared default lies on every path between its read and its store in get_defaults.",
    "C11": " Rounds 9-12: a dict is expanded into a Namespace only when all its keys are strings.",
    "C12": " Rounds 9-12: a container hint needs evaluation as soon as one member does.",
    "C13": " Rounds 9-12: the shift for an explicit instance drops call position 0 only, a self receiver is a bound call, the flag is re-initialised per call node; stored lambdas of module tables do not read the loop variable; the folded constant is taken by truth value; keyword-only names and defaults are joined on the same side.",
    "C14": " Rounds 9-12: abstractness is asked of the declared type where the implicit class of a short form is chosen.",
    "C15": " Rounds 9-12: a link is skipped for an unresolved source only when the source key is absent (not when its value is None).",
    "C16": " Rounds 9-12: a refused link leaves the parser as it was - no refusal is reachable from a lasting change of the parser's tables (F65); the separator-terminated prefix rule also covers discard_init_args_on_class_path_change.",
    "C17": " Rounds 9-12: a --cfg item is folded in with env=False and defaults=False.",
    "C19": " Rounds 9-12: the failure class of the os.fsencode probe is the one converted to PathError.",
    "C20": " Rounds 9-12: the constructor-exception model covers the local Decimal deserializer.",
}


def main():
    checks = []
    for pid in ALL:
        if pid not in CLAIMED:
            continue
        tech, text, note, ref = CLAIMED[pid]
        if pid in ADDED:
            tech, text = tech + ADDED[pid][0], text + ADDED[pid][1]
        if pid in ADDED2:
            text = text + ADDED2[pid]
        if pid in ADDED3:
            text = text + ADDED3[pid]
        if pid in ADDED4:
            text = text + ADDED4[pid]
        if pid in ADDED5:
            text = text + ADDED5[pid]
        checks.append(
            {
                "property_id": pid,
                "quick_cmd": f"/venv/bin/python -m jv.check {pid} --tier quick",
                "thorough_cmd": f"/venv/bin/python -m jv.check {pid} --tier thorough",
                "evidence_file": f"/verif/evidence/{pid}.json",
                "replay_cmd_template": "/venv/bin/python -m jv.check " + pid + " --explain {path}",
                "engine": "jv",
                "level_claimed": {"category": "other", "text": text, "design_ref": ref},
                "level_note": note,
                "technique": tech,
            }
        )
    na = []
    for pid in ALL:
        if pid in CLAIMED:
            continue
        na.append({"property_id": pid, "reason": NOT_APPLICABLE.get(pid, PENDING)})
    manifest = {
        "version": 1,
        "setup_cmd": "/venv/bin/python -m compileall -q /verif/jv",
        "hooks": {
            "guard": "JSONARGPARSE_VERIF",
            "enable": "none needed: the checks are static and read /repo's working tree; no instrumentation exists in /repo",
            "baseline_off_cmd": "/venv/bin/python /verif/tools/baseline.py",
            "source_commits": [],
            "add_only": True,
        },
        "engines": [
            {
                "name": "jv",
                "path": "/verif/jv",
                "serves_properties": sorted(CLAIMED),
                "kind_free_text": "repository-specific static analysis over Python ast: source model, statement CFG with exception edges, call graph, alias/mutation summaries, regular-language inclusion; stdlib only",
            }
        ],
        "checks": checks,
        "not_applicable": na,
        "notes": "All checks are static (family: static analysis). Exit 0 = obligations discharged (KNOWN-FINDING lines for listed genuine defects), 1 = VIOLATION, 2 = ANALYSIS-ERROR (vanished anchor / floor missed / internal error). Known findings: /verif/known_findings.json.",
    }
    with open(os.path.join(HERE, "MANIFEST.json"), "w") as f:
        json.dump(manifest, f, indent=1)
        f.write("\n")
    print(f"claimed {len(checks)}, not applicable {len(na)}")


if __name__ == "__main__":
    main()
