#!/venv/bin/python
"""Neutral-variant experiment: rename the non-parameter locals of ONE module at a time (behaviour preserving)
and run every quick check on the variant.  A check may fail closed (exit 2, anchor vanished) but must never
print a VIOLATION: that would be a false alarm on code where the property holds.

usage: tools/rename_experiment.py [module.py ...]
"""
import ast
import json
import os
import shutil
import subprocess
import sys
import tempfile
from concurrent.futures import ThreadPoolExecutor

sys.path.insert(0, "/verif")
from jv.selftest import _LocalRenamer, _copy_pkg  # noqa: E402

PROPS = [c["property_id"] for c in json.load(open("/verif/MANIFEST.json"))["checks"]]
PROPS = sorted(PROPS)


def one(mod):
    d = tempfile.mkdtemp(prefix="jvren-", dir="/var/tmp")
    try:
        _copy_pkg(d)
        p = os.path.join(d, "jsonargparse", mod)
        tree = ast.parse(open(p).read())
        tree = ast.fix_missing_locations(_LocalRenamer().visit(tree))
        txt = ast.unparse(tree)
        compile(txt, p, "exec")
        open(p, "w").write(txt + "\n")
        res = {}
        ev = tempfile.mkdtemp(prefix="jvrenev-", dir="/var/tmp")
        for prop in PROPS:
            env = dict(os.environ, JV_REPO=d, JV_EVIDENCE_DIR=ev)
            r = subprocess.run(["/venv/bin/python", "-m", "jv.check", prop, "--tier", "quick"], cwd="/verif", env=env, capture_output=True, text=True)
            if r.returncode != 0:
                lines = [l for l in r.stdout.splitlines() if l.startswith(("VIOLATION", "ANALYSIS-ERROR"))]
                res[prop] = (r.returncode, lines[:4])
        shutil.rmtree(ev, ignore_errors=True)
        return mod, res
    finally:
        shutil.rmtree(d, ignore_errors=True)


def main():
    mods = sys.argv[1:] or sorted(f for f in os.listdir("/repo/jsonargparse") if f.endswith(".py"))
    bad = 0
    closed = 0
    with ThreadPoolExecutor(max_workers=8) as ex:
        for mod, res in ex.map(one, mods):
            for prop, (rc, lines) in sorted(res.items()):
                if rc == 1:
                    bad += 1
                    print(f"FALSE-ALARM {mod} {prop}")
                    for l in lines:
                        print("    ", l[:230])
                else:
                    closed += 1
                    print(f"fail-closed {mod} {prop} :: {lines[0][:200] if lines else ''}")
    print(f"false alarms: {bad}   fail-closed (exit 2): {closed}")
    return 1 if bad else 0


if __name__ == "__main__":
    sys.exit(main())
