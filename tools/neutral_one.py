#!/venv/bin/python
"""neutral_one.py PROP KIND [module.py]: build one neutral variant (all modules, or one) and print the check's report lines."""
import ast, os, shutil, subprocess, sys, tempfile
sys.path.insert(0, "/verif")
from jv.selftest import _LocalRenamer, _PassInserter, _LogInserter, _copy_pkg, NEUTRAL_KINDS
prop, kind = sys.argv[1], sys.argv[2]
only = sys.argv[3] if len(sys.argv) > 3 else None
d = tempfile.mkdtemp(prefix="jvn1-", dir="/var/tmp")
try:
    _copy_pkg(d)
    pk = os.path.join(d, "jsonargparse")
    for fn in sorted(os.listdir(pk)):
        if not fn.endswith(".py") or (only and fn != only):
            continue
        p = os.path.join(pk, fn)
        tree = ast.parse(open(p).read())
        T = {"unparse+pass": _PassInserter, "rename-locals": _LocalRenamer, "unparse+log": _LogInserter}.get(kind) or NEUTRAL_KINDS.get(kind)
        if T:
            tree = ast.fix_missing_locations(T().visit(tree))
        open(p, "w").write(ast.unparse(tree) + "\n")
    env = dict(os.environ, JV_REPO=d, JV_EVIDENCE_DIR=os.path.join(d, "ev"))
    r = subprocess.run(["/venv/bin/python", "-m", "jv.check", prop], cwd="/verif", env=env, capture_output=True, text=True)
    print("rc", r.returncode)
    for l in r.stdout.splitlines():
        if "VIOLATION" in l or "ANALYSIS-ERROR" in l or ": rule " in l or "construct" in l:
            print(l[:400])
    print(r.stderr[-2000:])
finally:
    shutil.rmtree(d, ignore_errors=True)
