#!/venv/bin/python
"""Ad-hoc mutant runner:  mut.py PROP FILE 'old' 'new' [PROP2 ...]
Copies /repo/jsonargparse to a scratch dir, replaces the first occurrence of old by
new in FILE, checks the result still compiles, runs the check(s), removes the copy."""
import os, shutil, subprocess, sys, tempfile

def run(props, file, old, new, count=1, quiet=False):
    d = tempfile.mkdtemp(prefix="jvmut-", dir="/var/tmp")
    try:
        shutil.copytree("/repo/jsonargparse", os.path.join(d, "jsonargparse"))
        p = os.path.join(d, "jsonargparse", file)
        s = open(p).read()
        if old not in s:
            print("OLD TEXT NOT FOUND"); return None
        s = s.replace(old, new, count)
        compile(s, p, "exec")
        open(p, "w").write(s)
        res = {}
        for prop in props:
            env = dict(os.environ, JV_REPO=d, JV_EVIDENCE_DIR=os.path.join(d, "ev"))
            r = subprocess.run(["/venv/bin/python", "-m", "jv.check", prop], cwd="/verif", env=env, capture_output=True, text=True)
            res[prop] = r.returncode
            if not quiet:
                lines = [l for l in r.stdout.splitlines() if "VIOLATION" in l or "ANALYSIS-ERROR" in l or ": rule " in l]
                print(f"{prop}: rc={r.returncode}")
                for l in lines[:8]: print("   ", l[:300])
                if r.returncode == 2: print(r.stdout[-1500:], r.stderr[-1500:])
        return res
    finally:
        shutil.rmtree(d, ignore_errors=True)

if __name__ == "__main__":
    props = sys.argv[1].split(",")
    run(props, sys.argv[2], sys.argv[3], sys.argv[4])
