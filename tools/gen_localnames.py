#!/venv/bin/python
"""Regenerates jv/localnames.json (reference local names + shapes, see jv/alpha.py) from /repo's working tree."""
import ast, json, os, sys
sys.path.insert(0, "/verif")
from jv.alpha import reference_of, REF
root = os.environ.get("JV_REPO") or "/repo"
ref = {}
for fn in sorted(os.listdir(os.path.join(root, "jsonargparse"))):
    if fn.endswith(".py"):
        tree = ast.parse(open(os.path.join(root, "jsonargparse", fn)).read())
        ref.update(reference_of(tree, fn[:-3]))
json.dump(ref, open(REF, "w"), indent=0, sort_keys=True)
print(len(ref), "functions recorded in", REF)
