#!/venv/bin/python
"""seed_at_head.py <seed> [props]: for a kept change whose patch no longer applies to the current tree (a later fix:
commit rewrote the lines), run the CURRENT rules on the tree the change was verified on (meta.json
repo_head_when_verified) with the patch applied, and on that tree without it; records the result in meta.json under
checks_that_report_it_at_recorded_head."""
import json, os, shutil, subprocess, sys, tempfile

sid = sys.argv[1]
meta = json.load(open(f"/verif/seeded/{sid}/meta.json"))
head = meta["repo_head_when_verified"]
props = sys.argv[2:] or sorted(c["property_id"] for c in json.load(open("/verif/MANIFEST.json"))["checks"])
out = {}
for with_patch in (False, True):
    d = tempfile.mkdtemp(prefix="jvhead-", dir="/var/tmp")
    try:
        subprocess.run(f"git -C /repo archive {head} jsonargparse | tar -x -C {d}", shell=True, check=True)
        if with_patch:
            subprocess.run(["patch", "-p1", "-s", "-f", "-d", d, "-i", f"/verif/seeded/{sid}/patch.diff"], check=True)
        for prop in props:
            env = dict(os.environ, JV_REPO=d, JV_EVIDENCE_DIR=os.path.join(d, "ev"))
            r = subprocess.run(["/venv/bin/python", "-m", "jv.check", prop], cwd="/verif", env=env, capture_output=True, text=True)
            rules = sorted({l.split(": rule ")[1].split(":")[0] for l in r.stdout.splitlines() if ": rule " in l})
            out.setdefault(prop, {})["patched" if with_patch else "base"] = (r.returncode, rules)
    finally:
        shutil.rmtree(d, ignore_errors=True)
new = {p: {"rc": v["patched"][0], "rules": [x for x in v["patched"][1] if x not in v["base"][1]]} for p, v in out.items() if v["patched"][0] == 1 and set(v["patched"][1]) - set(v["base"][1])}
print(sid, "at", head, "->", new)
meta["checks_that_report_it_at_recorded_head"] = new
if new:
    meta["caught"] = True
json.dump(meta, open(f"/verif/seeded/{sid}/meta.json", "w"), indent=1)
