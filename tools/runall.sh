#!/bin/bash
# run every claimed quick check; print only those that do not exit 0
cd /verif
fail=0
for p in $(/venv/bin/python -c "import json;print(' '.join(c['property_id'] for c in json.load(open('/verif/MANIFEST.json'))['checks']))"); do
  /venv/bin/python -m jv.check $p > /var/tmp/runall_$p.txt 2>&1
  rc=$?
  if [ $rc -ne 0 ]; then echo "$p rc=$rc"; grep -E "VIOLATION|ANALYSIS-ERROR|: rule " /var/tmp/runall_$p.txt | head -5; fail=1; fi
  rm -f /var/tmp/runall_$p.txt
done
[ $fail -eq 0 ] && echo "all quick checks exit 0"
