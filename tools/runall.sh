#!/bin/bash
# run every claimed quick check; print only those that do not exit 0
cd /verif
fail=0
for p in C01 C02 C03 C04 C05 C06 C08 C09 C10 C11 C12 C14 C15 C16 C18 C19 C20; do
  /venv/bin/python -m jv.check $p > /var/tmp/runall_$p.txt 2>&1
  rc=$?
  if [ $rc -ne 0 ]; then echo "$p rc=$rc"; grep -E "VIOLATION|ANALYSIS-ERROR|: rule " /var/tmp/runall_$p.txt | head -5; fail=1; fi
  rm -f /var/tmp/runall_$p.txt
done
[ $fail -eq 0 ] && echo "all 17 quick checks exit 0"
