#!/bin/bash
# run every claimed quick check; print only those that do not exit 0
cd /verif
fail=0
for p in $(/venv/bin/python -c "import json;print(' '.join(c['property_id'] for c in json.load(open('/verif/MANIFEST.json'))['checks']))"); do
  /venv/bin/python -m jv.check $p > /var/tmp/runall_$p.txt 2>&1
  rc=$?
  if [ $rc -ne 0 ]; then echo "$p rc=$rc"; grep -E "VIOLATION|ANALYSIS-ERROR|: rule " /var/tmp/runall_$p.txt | head -5; fail=1; fi
  rm -f /var/tmp/runall_$p.txt
done
[ $fail -eq 0 ] && echo "all quick checks exit 0"
# the alpha-normalisation reference (jv/localnames.json) should describe the current tree: regenerate after repository fixes
/venv/bin/python - <<'PY'
import ast, json, os, sys
sys.path.insert(0, "/verif")
from jv.alpha import reference_of, REF
cur = {}
for fn in sorted(os.listdir("/repo/jsonargparse")):
    if fn.endswith(".py"):
        cur.update(reference_of(ast.parse(open("/repo/jsonargparse/" + fn).read()), fn[:-3]))
old = json.load(open(REF))
stale = [k for k in cur if old.get(k) != cur[k]] + [k for k in old if k not in cur]
if stale:
    print(f"NOTE: jv/localnames.json is stale for {len(stale)} function(s) (e.g. {stale[:3]}): run tools/gen_localnames.py")
PY
