#!/venv/bin/python
"""Behaviour-preserving rewrites of the whole package, one kind at a time; every quick check must give the verdict
it gives on the unchanged tree (exit 0) or fail closed (exit 2) - never a VIOLATION.

usage: tools/neutral_experiment.py [kind ...]      kinds: else-swap annotate fstring guard-split
"""
import ast
import json
import os
import shutil
import subprocess
import sys
import tempfile
from concurrent.futures import ThreadPoolExecutor

sys.path.insert(0, "/verif")
from jv.selftest import _copy_pkg  # noqa: E402

PROPS = sorted(c["property_id"] for c in json.load(open("/verif/MANIFEST.json"))["checks"])


from jv.neutral import KINDS  # noqa: E402


def run(kind):
    d = tempfile.mkdtemp(prefix="jvneu-", dir="/var/tmp")
    out = []
    try:
        _copy_pkg(d)
        pk = os.path.join(d, "jsonargparse")
        for fn in sorted(os.listdir(pk)):
            if fn.endswith(".py"):
                p = os.path.join(pk, fn)
                tree = ast.fix_missing_locations(KINDS[kind]().visit(ast.parse(open(p).read())))
                txt = ast.unparse(tree)
                compile(txt, p, "exec")
                open(p, "w").write(txt + "\n")
        if "--suite" in sys.argv:
            # confirm the rewrite is behaviour preserving on the pinned suite
            b = json.load(open("/root/.vp/BASELINE.json"))
            print(kind, "variant at", d)
        for prop in PROPS:
            env = dict(os.environ, JV_REPO=d, JV_EVIDENCE_DIR=os.path.join(d, "ev"))
            r = subprocess.run(["/venv/bin/python", "-m", "jv.check", prop], cwd="/verif", env=env, capture_output=True, text=True)
            if r.returncode:
                lines = [l.replace(d, "") for l in r.stdout.splitlines() if ": rule " in l or "ANALYSIS-ERROR" in l][:5]
                out.append((prop, r.returncode, lines))
        return kind, out
    finally:
        if "--keep" not in sys.argv:
            shutil.rmtree(d, ignore_errors=True)


def main():
    kinds = [k for k in sys.argv[1:] if not k.startswith("--")] or list(KINDS)
    bad = 0
    with ThreadPoolExecutor(max_workers=4) as ex:
        for kind, out in ex.map(run, kinds):
            for prop, rc, lines in out:
                tag = "FALSE-ALARM" if rc == 1 else "fail-closed"
                bad += rc == 1
                print(f"{tag} {kind} {prop}")
                for l in lines:
                    print("     ", l[:240])
    print("false alarms:", bad)
    return 1 if bad else 0


if __name__ == "__main__":
    sys.exit(main())
