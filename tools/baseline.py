#!/venv/bin/python
"""Run the repository's pinned test suite (command from /root/.vp/BASELINE.json) and
compare with its stable_pass list.  Exit 0 iff every stable test still passes."""
import json, os, subprocess, sys, tempfile
import xml.etree.ElementTree as ET

b = json.load(open("/root/.vp/BASELINE.json"))
fd, out = tempfile.mkstemp(suffix=".xml", dir="/var/tmp")
os.close(fd)
try:
    cmd = b["cmd"].replace("<file>", out)
    env = dict(os.environ)
    env.pop("JSONARGPARSE_VERIF", None)
    p = subprocess.run(cmd, shell=True, stdout=subprocess.PIPE, stderr=subprocess.STDOUT, text=True, env=env)
    passed = set()
    for tc in ET.parse(out).getroot().iter("testcase"):
        if not any(ch.tag in ("failure", "error", "skipped") for ch in tc):
            passed.add(f"{tc.get('classname')}::{tc.get('name')}")
    missing = [t for t in b["stable_pass"] if t not in passed]
    print(p.stdout.strip().splitlines()[-1])
    print(f"stable_pass: {len(b['stable_pass'])}  passing now: {len(b['stable_pass']) - len(missing)}  missing: {len(missing)}")
    for m in missing[:40]:
        print("  MISSING", m)
    sys.exit(1 if missing else 0)
finally:
    os.unlink(out)
