#!/venv/bin/python
"""seed_check.py <seed_id> [PROP ...] : apply /verif/seeded/<seed_id>/patch.diff to a scratch copy of the
package and run the given checks (default: the seed's own property)."""
import os, shutil, subprocess, sys, tempfile

def main():
    sid = sys.argv[1]
    props = sys.argv[2:] or [sid.split("-")[0]]
    d = tempfile.mkdtemp(prefix="jvseed-", dir="/var/tmp")
    try:
        shutil.copytree("/repo/jsonargparse", os.path.join(d, "jsonargparse"))
        r = subprocess.run(["patch", "-p1", "-s", "-f", "-d", d, "-i", f"/verif/seeded/{sid}/patch.diff"], capture_output=True, text=True)
        if r.returncode:
            print("PATCH FAILED", r.stdout, r.stderr); return 2
        for prop in props:
            env = dict(os.environ, JV_REPO=d, JV_EVIDENCE_DIR=os.path.join(d, "ev"))
            r = subprocess.run(["/venv/bin/python", "-m", "jv.check", prop], cwd="/verif", env=env, capture_output=True, text=True)
            lines = [l for l in r.stdout.splitlines() if "VIOLATION" in l or "ANALYSIS-ERROR" in l or ": rule " in l]
            print(f"{sid} {prop}: rc={r.returncode}")
            for l in lines[:6]: print("   ", l[:300])
    finally:
        shutil.rmtree(d, ignore_errors=True)
main()
