#!/venv/bin/python
"""Evaluate one seeded change:  seed_eval.py <seed_dir> <property> <seed_id> [--keep]

<seed_dir> contains patch.diff, demo.py (and notes.md).  In a scratch git worktree of
/repo (under /var/tmp, removed afterwards) this script
  1. runs the demo on the clean tree        (must PASS / exit 0)
  2. applies the patch, runs the demo       (must FAIL / exit != 0)
  3. runs the pinned test suite             (every BASELINE stable_pass test must pass)
  4. runs every jv check (quick) with JV_REPO pointing at the patched worktree
and, with --keep, stores the seed as /verif/seeded/<seed_id>/ with a meta.json.
"""
import json
import os
import shutil
import subprocess
import sys
import tempfile
import xml.etree.ElementTree as ET

VERIF = os.path.dirname(os.path.dirname(os.path.abspath(__file__)))
PROPS = [c["property_id"] for c in json.load(open(os.path.join(VERIF, "MANIFEST.json")))["checks"]]


def sh(cmd, cwd=None, env=None, timeout=1800):
    return subprocess.run(cmd, shell=True, cwd=cwd, env=env, capture_output=True, text=True, timeout=timeout)


def main():
    seed_dir, prop, seed_id = sys.argv[1], sys.argv[2], sys.argv[3]
    keep = "--keep" in sys.argv
    patch = os.path.join(seed_dir, "patch.diff")
    demo = os.path.join(seed_dir, "demo.py")
    wt = tempfile.mkdtemp(prefix="seedeval-", dir="/var/tmp")
    os.rmdir(wt)
    r = sh(f"git -C /repo worktree add -q --detach {wt} HEAD")
    if r.returncode:
        print("worktree failed", r.stderr)
        return 2
    res = {"seed": seed_id, "property": prop}
    try:
        os.makedirs(os.path.join(wt, "SEED", "X"), exist_ok=True)
        # demos of later rounds name the volunteer's own worktree (the interpreter has another copy of the library
        # installed, so they put the worktree first on sys.path): point them at the scratch worktree used here
        agent_wt = os.path.dirname(os.path.dirname(os.path.abspath(seed_dir)))
        txt = open(demo).read()
        res["demo_names_worktree"] = agent_wt if agent_wt in txt else None
        open(os.path.join(wt, "SEED", "X", "demo.py"), "w").write(txt.replace(agent_wt, wt))
        env = dict(os.environ, PYTHONPATH=wt)
        env.pop("JV_REPO", None)
        d0 = sh("/venv/bin/python SEED/X/demo.py", cwd=wt, env=env, timeout=300)
        res["demo_clean_rc"] = d0.returncode
        res["demo_clean_tail"] = (d0.stdout + d0.stderr).strip().splitlines()[-1:] if (d0.stdout + d0.stderr).strip() else []
        a = sh(f"git apply --3way {patch} 2>&1 || git apply {patch}", cwd=wt)
        if sh("git diff HEAD --quiet -- jsonargparse", cwd=wt).returncode == 0:
            res["apply"] = "FAILED: " + (a.stdout + a.stderr)[-300:]
            print(json.dumps(res, indent=1))
            return 1
        res["apply"] = "ok"
        res["files_touched"] = sh("git diff HEAD --stat -- jsonargparse | tail -1", cwd=wt).stdout.strip()
        d1 = sh("/venv/bin/python SEED/X/demo.py", cwd=wt, env=env, timeout=300)
        res["demo_patched_rc"] = d1.returncode
        res["demo_patched_tail"] = (d1.stdout + d1.stderr).strip().splitlines()[-1:] if (d1.stdout + d1.stderr).strip() else []
        # test suite
        b = json.load(open("/root/.vp/BASELINE.json"))
        xml = os.path.join(wt, "junit.xml")
        t = sh(f"/venv/bin/python -m pytest -q -p no:cacheprovider --timeout=900 --continue-on-collection-errors --junitxml={xml}", cwd=wt, env=env)
        passed = set()
        try:
            for tc in ET.parse(xml).getroot().iter("testcase"):
                if not any(ch.tag in ("failure", "error", "skipped") for ch in tc):
                    passed.add(f"{tc.get('classname')}::{tc.get('name')}")
        except Exception as ex:
            res["suite_error"] = str(ex)
        missing = [x for x in b["stable_pass"] if x not in passed]
        res["suite_missing"] = missing[:10]
        res["suite_ok"] = not missing
        res["suite_tail"] = t.stdout.strip().splitlines()[-1:] if t.stdout.strip() else []
        # checks
        evd = tempfile.mkdtemp(prefix="seedeval-ev-", dir="/var/tmp")
        fired = {}
        for p in PROPS:
            env2 = dict(os.environ, JV_REPO=wt, JV_EVIDENCE_DIR=evd)
            c = sh(f"/venv/bin/python -m jv.check {p}", cwd=VERIF, env=env2, timeout=600)
            if c.returncode != 0:
                rules = sorted({l.split(": rule ", 1)[1].split(":", 1)[0] for l in c.stdout.splitlines() if ": rule " in l})
                fired[p] = {"rc": c.returncode, "rules": rules, "first": next((l[:400] for l in c.stdout.splitlines() if ": rule " in l or "ANALYSIS-ERROR" in l), "")}
        shutil.rmtree(evd, ignore_errors=True)
        res["checks_fired"] = fired
        res["caught"] = any(v["rc"] == 1 for v in fired.values())
        res["caught_by_own_property"] = fired.get(prop, {}).get("rc") == 1
        valid = res["demo_clean_rc"] == 0 and res["demo_patched_rc"] != 0 and res["suite_ok"]
        res["valid_seed"] = valid
        print(json.dumps(res, indent=1))
        if keep and valid:
            dst = os.path.join(VERIF, "seeded", seed_id)
            os.makedirs(dst, exist_ok=True)
            shutil.copy(patch, os.path.join(dst, "patch.diff"))
            shutil.copy(demo, os.path.join(dst, "demo.py"))
            notes = os.path.join(seed_dir, "notes.md")
            if os.path.exists(notes):
                shutil.copy(notes, os.path.join(dst, "notes.md"))
            head = sh("git -C /repo rev-parse --short HEAD").stdout.strip()
            meta = {
                "id": seed_id,
                "breaks_property": prop,
                "source": "independent sub-agent given only the property text and a scratch worktree",
                "repo_head_when_verified": head,
                "needs_to_manifest": open(notes).read() if os.path.exists(notes) else "",
                "verified": {
                    "demo_on_clean_tree": "PASS (exit 0)",
                    "demo_with_patch": f"FAIL (exit {res['demo_patched_rc']})",
                    "pinned_suite_with_patch": res["suite_tail"],
                    "commands": [
                        "git worktree add <scratch> HEAD; python SEED/X/demo.py",
                        "git apply patch.diff; python SEED/X/demo.py",
                        "pytest (BASELINE cmd) in the patched worktree: all 1179 stable tests pass",
                        "JV_REPO=<scratch> python -m jv.check Cnn for all 17 claimed properties",
                    ],
                },
                "checks_that_report_it": fired,
                "caught": res["caught"],
            }
            with open(os.path.join(dst, "meta.json"), "w") as f:
                json.dump(meta, f, indent=1)
        return 0
    finally:
        sh(f"git -C /repo worktree remove --force {wt}")
        shutil.rmtree(wt, ignore_errors=True)


if __name__ == "__main__":
    sys.exit(main())
