#!/bin/bash
# seed_batch.sh Cxx [round] : evaluate /tmp/wt<round>-Cxx/SEED/{A,B} and keep valid ones as /verif/seeded/Cxx-<round><A|B>
id=$1
rnd=${2:-}
for s in A B C D; do
  if [ -f /tmp/wt$rnd-$id/SEED/$s/patch.diff ]; then
    /venv/bin/python /verif/tools/seed_eval.py /tmp/wt$rnd-$id/SEED/$s $id $id-$rnd$s --keep 2>&1 | /venv/bin/python -c "
import sys,json,re
txt=sys.stdin.read()
m=re.findall(r'\{\n \"seed\".*\n\}', txt, re.S)
if not m: print('NO RESULT', txt[-500:]); sys.exit()
d=json.loads(m[0]); print(d['seed'], 'valid', d.get('valid_seed'), '(clean rc', d.get('demo_clean_rc'), 'patched rc', d.get('demo_patched_rc'), 'suite', d.get('suite_ok'), ') caught', d.get('caught'), {k:(v['rc'],v['rules']) for k,v in d.get('checks_fired',{}).items()}, d.get('apply') if d.get('apply')!='ok' else '')
"
  fi
done
